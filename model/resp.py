"""
Independent RFC 3501 *response* tokenizer (no code shared with asimap).

`Splitter.feed(bytes)` cuts the server->client stream into responses: a
response is a CRLF-terminated line that may contain `{n}CRLF` + n octets any
number of times.  `parse_response(raw_parts)` then produces a `Resp` with a
strict token tree.  Both are total: the only exception is `Malformed`.
"""

import re


class Malformed(Exception):
    def __init__(self, kind, detail=""):
        super().__init__(f"{kind}: {detail}")
        self.kind = kind
        self.detail = detail


class Lit(bytes):
    """A literal's octets (distinguished from quoted strings)."""


class QStr(str):
    """A decoded quoted string."""


class Atom(str):
    pass


_LIT_END = re.compile(rb"\{(\d+)\}$")
_LIT_HDR = re.compile(rb"\{(\d+)\}")
_SECTION_ITEMS = (b"BODY", b"BODY.PEEK", b"BINARY", b"BINARY.PEEK", b"BINARY.SIZE")


class Splitter:
    def __init__(self):
        self.buf = bytearray()
        self.parts = []  # completed pieces of the current response
        self.need = None  # octets of literal still to read
        self.count = 0

    def pending(self):
        """Bytes of an incomplete response currently buffered."""
        out = b"".join(p if isinstance(p, bytes) else bytes(p) for p in self.parts) + bytes(self.buf)
        return out

    def feed(self, data):
        self.buf += data
        out = []
        while True:
            if self.need is not None:
                if len(self.buf) < self.need:
                    break
                lit = Lit(bytes(self.buf[: self.need]))
                del self.buf[: self.need]
                self.parts.append(lit)
                self.need = None
                continue
            i = self.buf.find(b"\n")
            if i < 0:
                break
            line = bytes(self.buf[: i + 1])
            del self.buf[: i + 1]
            if not line.endswith(b"\r\n"):
                raise Malformed("bare_lf", repr(line[-40:]))
            body = line[:-2]
            if b"\r" in body:
                raise Malformed("bare_cr", repr(body[:60]))
            m = _LIT_END.search(body)
            if m:
                self.parts.append(body)
                self.need = int(m.group(1))
                continue
            self.parts.append(body)
            out.append(self.parts)
            self.parts = []
            self.count += 1
        return out


class Resp:
    __slots__ = ("raw", "tag", "kind", "num", "code", "text", "tokens", "status")

    def __init__(self):
        self.raw = b""
        self.tag = None  # "*", "+", or the tag
        self.kind = None  # upper-case keyword: OK NO BAD BYE FETCH EXISTS ...
        self.num = None
        self.code = None  # response code tokens (list) for status responses
        self.text = None
        self.tokens = None  # token tree after the keyword
        self.status = None  # OK/NO/BAD/BYE/PREAUTH for status responses

    def __repr__(self):
        return f"<Resp {self.raw[:80]!r}>"


_STATUS = {"OK", "NO", "BAD", "BYE", "PREAUTH"}
_ATOM_SPECIALS = set(b'(){ %*"\\]')


class _Tok:
    """Tokenizer over the alternating [line-bytes, Lit, line-bytes, ...] parts."""

    def __init__(self, parts):
        self.parts = parts
        self.pi = 0
        self.pos = 0

    def _cur(self):
        while self.pi < len(self.parts):
            p = self.parts[self.pi]
            if isinstance(p, Lit):
                return p
            if self.pos < len(p):
                return p
            # exhausted this line piece
            self.pi += 1
            self.pos = 0
        return None

    def at_end(self):
        return self._cur() is None

    def peek(self):
        p = self._cur()
        if p is None:
            return None
        if isinstance(p, Lit):
            return "LIT"
        return p[self.pos]

    def skip_sp(self):
        n = 0
        while True:
            c = self.peek()
            if c == 0x20:
                self.pos += 1
                n += 1
            else:
                return n

    def rest_text(self):
        """Remaining bytes of the current line piece (free text)."""
        p = self._cur()
        if p is None:
            return b""
        if isinstance(p, Lit):
            raise Malformed("literal_in_text")
        t = p[self.pos :]
        self.pos = len(p)
        if self._cur() is not None:
            raise Malformed("literal_in_text")
        return t

    def value(self, depth=0):
        c = self.peek()
        if c is None:
            raise Malformed("unexpected_end")
        if c == "LIT":
            p = self.parts[self.pi]
            # the preceding line piece must have announced exactly len(p)
            self.pi += 1
            self.pos = 0
            return p
        if c == 0x28:  # (
            self.pos += 1
            items = []
            glued = False  # the previous item was a list and nothing stands between its ")" and here
            while True:
                c = self.peek()
                if c is None:
                    raise Malformed("unbalanced_parens", "missing )")
                if c == 0x29:
                    self.pos += 1
                    return items
                if c == 0x20:
                    self.pos += 1
                    glued = False
                    continue
                if glued and c != 0x28:
                    # `(...)(...)` is how the parts of a multipart body follow each other; a string or an
                    # atom glued to a ")" is in no production of the grammar (body-type-mpart = 1*body SP subtype)
                    raise Malformed("missing_space", "string or atom directly after ')'")
                items.append(self.value(depth + 1))
                glued = isinstance(items[-1], list)
        if c == 0x29:
            raise Malformed("unbalanced_parens", "unexpected )")
        if c == 0x22:  # "
            return self._quoted()
        return self._atom()

    def _quoted(self):
        p = self.parts[self.pi]
        i = self.pos + 1
        out = bytearray()
        n = len(p)
        while True:
            if i >= n:
                raise Malformed("unterminated_quoted", repr(bytes(p[self.pos : self.pos + 60])))
            ch = p[i]
            if ch == 0x22:
                break
            if ch == 0x5C:
                if i + 1 >= n or p[i + 1] not in (0x22, 0x5C):
                    raise Malformed("bad_quoted_escape", repr(bytes(p[self.pos : i + 2])))
                out.append(p[i + 1])
                i += 2
                continue
            if ch in (0x0D, 0x0A, 0x00):
                raise Malformed("raw_ctl_in_quoted")
            out.append(ch)
            i += 1
        self.pos = i + 1
        # a quoted string must be followed by SP, ')' , ']' or end
        nxt = p[self.pos] if self.pos < n else None
        if nxt is not None and nxt not in (0x20, 0x29, 0x5D):
            raise Malformed("unescaped_dquote", repr(bytes(p[max(0, i - 30) : i + 30])))
        return QStr(out.decode("latin-1"))

    def _atom(self):
        p = self.parts[self.pi]
        i = self.pos
        n = len(p)
        depth_br = 0
        while i < n:
            ch = p[i]
            if depth_br:
                if ch == 0x22:
                    # a quoted header field name inside BODY[HEADER.FIELDS (...)]: skip to its end
                    i += 1
                    while i < n and p[i] != 0x22:
                        if p[i] == 0x5C:
                            if i + 1 >= n or p[i + 1] not in (0x22, 0x5C):
                                raise Malformed("bad_quoted_escape", repr(bytes(p[self.pos : i + 2])))
                            i += 1
                        elif p[i] in (0x0D, 0x0A):
                            raise Malformed("unterminated_quoted", repr(bytes(p[self.pos : self.pos + 60])))
                        i += 1
                    if i >= n:
                        raise Malformed("unterminated_quoted", repr(bytes(p[self.pos : self.pos + 60])))
                    i += 1
                    continue
                if ch == 0x5D:
                    depth_br -= 1
                elif ch == 0x5B:
                    depth_br += 1
                i += 1
                continue
            if ch == 0x5B and bytes(p[self.pos : i]).upper() in _SECTION_ITEMS:
                # BODY[...]: the section spec may contain spaces and parens
                depth_br += 1
                i += 1
                continue
            if ch in (0x20, 0x28, 0x29, 0x22):
                break
            if ch == 0x7B:  # { literal announcement at end of piece
                break
            if ch < 0x20 or ch == 0x7F:
                raise Malformed("ctl_in_atom", repr(bytes(p[self.pos : i + 1])))
            i += 1
        if depth_br:
            raise Malformed("unbalanced_brackets", repr(bytes(p[self.pos : self.pos + 60])))
        if i == self.pos:
            if i < n and p[i] == 0x7B:
                # "{n}" announcing the literal that follows
                m = _LIT_HDR.match(p, i)
                if not m or m.end() != n:
                    raise Malformed("bad_literal_header", repr(bytes(p[i : i + 20])))
                self.pi += 1
                self.pos = 0
                lit = self.parts[self.pi] if self.pi < len(self.parts) else None
                if not isinstance(lit, Lit) or len(lit) != int(m.group(1)):
                    raise Malformed("literal_count_mismatch")
                self.pi += 1
                return lit
            raise Malformed("empty_atom", repr(bytes(p[i : i + 20])))
        tok = bytes(p[self.pos : i])
        self.pos = i
        # an atom immediately followed by "{n}" literal (e.g. BODY[] {12}) is
        # separated by SP in IMAP; glued is malformed
        return Atom(tok.decode("latin-1"))

    def values_to_end(self):
        out = []
        while True:
            sp = self.skip_sp()
            if self.at_end():
                # (spacing irregularities are tolerated: the property is about
                # framing, literals, quoted strings and parentheses)
                return out
            out.append(self.value())


def parse_response(parts):
    r = Resp()
    r.raw = b"".join((b"\r\n" + bytes(p)) if isinstance(p, Lit) else p for p in parts) + b"\r\n"
    first = parts[0]
    if not first:
        raise Malformed("empty_line")
    t = _Tok(parts)
    # tag
    sp = first.find(b" ")
    if first[:1] == b"+":
        r.tag = "+"
        r.kind = "CONTINUE"
        if len(first) > 1 and first[1:2] != b" ":
            raise Malformed("bad_continuation", repr(first[:40]))
        if len(parts) > 1:
            raise Malformed("literal_in_text")
        r.text = first[2:].decode("latin-1")
        return r
    if sp <= 0:
        raise Malformed("no_space_after_tag", repr(first[:40]))
    tag = first[:sp]
    if any(c in _ATOM_SPECIALS or c < 0x21 or c > 0x7E for c in tag if tag != b"*"):
        raise Malformed("bad_tag", repr(tag[:40]))
    r.tag = tag.decode("latin-1")
    t.pos = sp + 1
    if t.at_end():
        raise Malformed("nothing_after_tag")
    t.skip_sp()
    kw = t.value()
    if isinstance(kw, Atom) and kw.isdigit():
        r.num = int(kw)
        t.skip_sp()
        if t.at_end():
            raise Malformed("nothing_after_number", repr(first[:40]))
        kw = t.value()
    if not isinstance(kw, Atom):
        raise Malformed("keyword_not_atom", repr(first[:40]))
    r.kind = kw.upper()
    if r.kind in _STATUS and r.num is None:
        r.status = r.kind
        # resp-text: optional [code] then free text
        if t.at_end():
            # "tag OK" with no text: ABNF requires SP text; tolerated as empty
            r.text = ""
            return r
        t.skip_sp()
        if t.peek() == 0x5B:
            p = t.parts[t.pi]
            j = p.find(b"]", t.pos)
            if j < 0:
                raise Malformed("unterminated_resp_code", repr(first[:60]))
            inner = p[t.pos + 1 : j]
            ct = _Tok([inner])
            try:
                r.code = ct.values_to_end()
            except Malformed as e:
                raise Malformed("bad_resp_code:" + e.kind, repr(inner[:60]))
            t.pos = j + 1
            if not t.at_end():
                if t.peek() != 0x20:
                    raise Malformed("no_space_after_code", repr(first[:60]))
                t.pos += 1
        txt = t.rest_text()
        if any(c in (0x00,) for c in txt):
            raise Malformed("nul_in_text")
        r.text = txt.decode("latin-1")
        return r
    if r.tag != "*":
        raise Malformed("tagged_non_status", repr(first[:60]))
    r.tokens = t.values_to_end()
    return r


# ---------------------------------------------------------------------------
# helpers to read the token tree
#
def fetch_items(resp):
    """* n FETCH (k v k v ...) -> dict with upper-cased item names."""
    if resp.kind != "FETCH" or not resp.tokens or not isinstance(resp.tokens[0], list):
        raise Malformed("fetch_shape", repr(resp.raw[:60]))
    if len(resp.tokens) != 1:
        raise Malformed("fetch_shape", repr(resp.raw[:60]))
    lst = resp.tokens[0]
    if len(lst) % 2:
        raise Malformed("fetch_odd_items", repr(resp.raw[:80]))
    out = {}
    for i in range(0, len(lst), 2):
        k = lst[i]
        if not isinstance(k, Atom):
            raise Malformed("fetch_item_name", repr(resp.raw[:80]))
        out[k.upper()] = lst[i + 1]
    return out


def as_bytes(v):
    if isinstance(v, Lit):
        return bytes(v)
    if isinstance(v, QStr):
        return v.encode("latin-1")
    if isinstance(v, Atom):
        if v.upper() == "NIL":
            return None
        return v.encode("latin-1")
    return None


# POP3 ---------------------------------------------------------------------
class Pop3Splitter:
    """Cuts a POP3 server stream into replies, given which are multi-line."""

    def __init__(self):
        self.buf = bytearray()

    def take_line(self):
        i = self.buf.find(b"\n")
        if i < 0:
            return None
        line = bytes(self.buf[: i + 1])
        del self.buf[: i + 1]
        if not line.endswith(b"\r\n"):
            raise Malformed("pop3_bare_lf", repr(line[-40:]))
        return line[:-2]

    def take_multiline(self):
        """Returns list of un-stuffed lines once the terminator arrived."""
        # find CRLF.CRLF at line start
        data = bytes(self.buf)
        pos = 0
        lines = []
        while True:
            i = data.find(b"\n", pos)
            if i < 0:
                return None
            line = data[pos : i + 1]
            if not line.endswith(b"\r\n"):
                raise Malformed("pop3_bare_lf", repr(line[-40:]))
            body = line[:-2]
            pos = i + 1
            if body == b".":
                del self.buf[:pos]
                return lines
            if body.startswith(b"."):
                body = body[1:]
            lines.append(body)
