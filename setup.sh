#!/bin/sh
# Nothing to build: verify that the interpreter, the repository's dependencies
# and the repository itself import, offline.
set -e
cd "$(dirname "$0")"
PYTHONPATH=/repo /venv/bin/python - <<'PY'
import aiosqlite, aiofiles, aioretry, asimap.user_server, asimap.server, asimap.pop3_client
import sys
sys.path.insert(0, ".")
import sim.loop, sim.seams, sim.net, sim.world, model.resp, harness.driver
print("setup ok: python", sys.version.split()[0], "aiosqlite", aiosqlite.__version__)
PY
mkdir -p evidence replays
