"""
Run driver: generates programs from VERIF_SEED, executes each in a forked
child (pristine module state, hang protection), matches violations against
the known-findings file, minimises and writes replay files, writes evidence.

Exit codes: 0 = property held on everything explored (KNOWN-FINDING lines
allowed); 1 = violation (VIOLATION line printed); 3 = harness error.
"""

import gc
import hashlib
import importlib
import json
import os
import random
import select
import shutil
import signal
import sys
import time
import traceback

VERIF = os.path.dirname(os.path.dirname(os.path.abspath(__file__)))
REPO = os.environ.get("VERIF_REPO", "/repo")
SHM = "/dev/shm" if os.path.isdir("/dev/shm") and os.access("/dev/shm", os.W_OK) else None

_real_time = time.time
_real_perf = time.perf_counter


_BASE = [None]


def scratch_base():
    """One scratch directory per top-level process; forked children inherit it (their
    run directories live inside it and go away with it)."""
    if _BASE[0] is None:
        base = SHM or os.environ.get("TMPDIR") or "/var/tmp"
        _BASE[0] = os.path.join(base, f"asimap-verif-{os.getpid():08d}")
    os.makedirs(_BASE[0], exist_ok=True)
    return _BASE[0]


# ---------------------------------------------------------------------------
# known findings
#
class KnownFindings:
    def __init__(self, path=None):
        self.path = path or os.path.join(VERIF, "known_findings.json")
        self.entries = []
        if os.path.exists(self.path):
            with open(self.path) as f:
                doc = json.load(f)
            self.entries = doc.get("findings", [])
        self.open = [e for e in self.entries if e.get("status") == "open"]

    def match(self, v):
        """Return the open entry that lists this violation, else None."""
        for e in self.open:
            if e["property"] != v["property"] or (e["rule"] != v["rule"] and e["rule"] != "*"):
                continue
            ok = True
            for k, want in (e.get("match") or {}).items():
                have = v.get("detail", {}).get(k)
                if isinstance(want, dict) and "re" in want:
                    import re

                    if have is None or not re.search(want["re"], str(have)):
                        ok = False
                        break
                elif isinstance(want, list):
                    if have not in want:
                        ok = False
                        break
                elif have != want:
                    ok = False
                    break
            if ok:
                return e
        return None


# ---------------------------------------------------------------------------
# child execution
#
def _child(check_mod, program, wfd, opts):
    """Runs in the forked child: execute one program, write JSON, _exit."""
    code = 0
    try:
        import faulthandler

        faulthandler.dump_traceback_later(opts.get("wall", 60) + 5, exit=True)
        gc.disable()
        gc.freeze()  # everything imported by the parent is permanent: seeded gc.collect() stays cheap
        res = check_mod.execute(program, opts)
        data = json.dumps(res, default=_jsonable).encode()
    except BaseException:
        data = json.dumps({"harness_error": traceback.format_exc()[-3000:]}).encode()
        code = 3
    try:
        off = 0
        while off < len(data):
            off += os.write(wfd, data[off : off + 65536])
        os.close(wfd)
    finally:
        os._exit(code)


def _jsonable(o):
    if isinstance(o, (bytes, bytearray)):
        return bytes(o).decode("latin-1")
    if isinstance(o, (set, frozenset)):
        return sorted(o, key=str)
    return repr(o)


class Pool:
    """Keeps `nproc` forked children busy; one child per program."""

    def __init__(self, check_mod, nproc, wall=60, opts=None):
        self.check_mod = check_mod
        self.nproc = nproc
        self.wall = wall
        self.opts = dict(opts or {})
        self.opts["wall"] = wall
        self.active = {}  # rfd -> (pid, job, buf, t0)
        scratch_base()  # fixed before the first fork

    def _spawn(self, job):
        rfd, wfd = os.pipe()
        sys.stdout.flush()
        sys.stderr.flush()
        pid = os.fork()
        if pid == 0:
            os.close(rfd)
            for fd in list(self.active):
                try:
                    os.close(fd)
                except OSError:
                    pass
            _child(self.check_mod, job["program"], wfd, dict(self.opts, **job.get("opts", {})))
        os.close(wfd)
        self.active[rfd] = [pid, job, bytearray(), _real_perf()]

    def run(self, jobs, on_result, deadline=None):
        """jobs: iterator of {"program":..., ...}; on_result(job, result) may
        return False to stop feeding new jobs."""
        it = iter(jobs)
        feeding = True
        while True:
            while feeding and len(self.active) < self.nproc:
                if deadline is not None and _real_time() > deadline:
                    feeding = False
                    break
                try:
                    job = next(it)
                except StopIteration:
                    feeding = False
                    break
                self._spawn(job)
            if not self.active:
                break
            r, _, _ = select.select(list(self.active), [], [], 0.5)
            now = _real_perf()
            for fd in r:
                ent = self.active[fd]
                try:
                    chunk = os.read(fd, 1 << 20)
                except OSError:
                    chunk = b""
                if chunk:
                    ent[2] += chunk
                    continue
                os.close(fd)
                del self.active[fd]
                pid, job, buf, t0 = ent
                try:
                    _, st = os.waitpid(pid, 0)
                except ChildProcessError:
                    st = 0
                try:
                    res = json.loads(bytes(buf).decode()) if buf else {"harness_error": f"child died, status {st}"}
                except Exception as e:
                    res = {"harness_error": f"bad child output: {e!r}"}
                res["wall"] = now - t0
                if on_result(job, res) is False:
                    feeding = False
            for fd in list(self.active):
                pid, job, buf, t0 = self.active[fd]
                if now - t0 > self.wall:
                    try:
                        os.kill(pid, signal.SIGKILL)
                    except ProcessLookupError:
                        pass
                    try:
                        os.waitpid(pid, 0)
                    except ChildProcessError:
                        pass
                    os.close(fd)
                    del self.active[fd]
                    res = {"harness_timeout": True, "wall": now - t0}
                    if on_result(job, res) is False:
                        feeding = False

    def run_one(self, program, opts=None):
        out = []
        self.run([{"program": program, "opts": opts or {}}], lambda j, r: out.append(r))
        return out[0]


# ---------------------------------------------------------------------------
# minimisation (delta debugging over the op list + simplification passes)
#
def _sig(v):
    return (v["property"], v["rule"])


def minimise(pool, check_mod, program, target_sig, kf, budget=150):
    """Shrink program["ops"] (and knobs) while a violation with the same
    (property, rule) that is not a listed known finding still occurs."""
    tries = [0]

    def fails(prog):
        if tries[0] >= budget:
            return False
        tries[0] += 1
        res = pool.run_one(prog, {"minimising": True})
        if res.get("harness_error") or res.get("harness_timeout"):
            return False
        for v in res.get("violations", []):
            if _sig(v) == target_sig and kf.match(v) is None:
                return True
        return False

    best = program
    ops = list(program.get("ops", []))
    n = 2
    while len(ops) >= 2 and tries[0] < budget:
        chunk = max(1, len(ops) // n)
        reduced = False
        for i in range(0, len(ops), chunk):
            cand_ops = ops[:i] + ops[i + chunk :]
            if not cand_ops:
                continue
            cand = dict(best, ops=cand_ops)
            if fails(cand):
                ops = cand_ops
                best = cand
                n = max(n - 1, 2)
                reduced = True
                break
        if not reduced:
            if chunk == 1:
                break
            n = min(len(ops), n * 2)
    # simplification passes supplied by the check
    for simp in getattr(check_mod, "simplifications", lambda p: [])(best):
        if tries[0] >= budget:
            break
        if fails(simp):
            best = simp
    best = dict(best)
    best["minimise_tries"] = tries[0]
    return best


# ---------------------------------------------------------------------------
def write_evidence(check_id, doc):
    d = os.environ.get("VERIF_EVIDENCE_DIR") or os.path.join(VERIF, "evidence")
    os.makedirs(d, exist_ok=True)
    path = os.path.join(d, f"{check_id}.json")
    tmp = path + ".tmp"
    with open(tmp, "w") as f:
        json.dump(doc, f, indent=1, default=_jsonable)
    os.replace(tmp, path)
    return path


def merge_counts(dst, src):
    for k, v in (src or {}).items():
        if isinstance(v, (int, float)):
            dst[k] = dst.get(k, 0) + v


def check_main(check_id, tier, argv=None):
    t_start = _real_time()
    seed = int(os.environ.get("VERIF_SEED", "1"))
    check_mod = importlib.import_module(f"checks.{check_id.lower()}")
    cfg = check_mod.CONFIG
    budget = float(os.environ.get("VERIF_BUDGET_S", cfg["budget"][tier]))
    nproc = int(os.environ.get("VERIF_PROCS", min(16, os.cpu_count() or 4)))
    kf = KnownFindings()
    pool = Pool(check_mod, nproc, wall=cfg.get("wall", 60))
    master = random.Random(seed)

    agg = {
        "runs": 0, "steps": 0, "sim_seconds": 0.0, "harness_errors": 0, "harness_timeouts": 0,
        "faults": {}, "rules": {}, "stats": {}, "probes": {}, "ended_by_known_finding": 0,
    }
    signatures = set()
    samples = []
    new_violations = []
    known_hits = {}
    foreign = {}
    errors = []
    state_hashes = set()

    def jobs():
        i = 0
        maxruns = cfg.get("max_runs", {}).get(tier)
        while maxruns is None or i < maxruns:
            run_seed = master.getrandbits(48)
            prog = check_mod.generate(run_seed, tier, i, kf)
            if prog is None:
                return
            prog.setdefault("check", check_id)
            prog.setdefault("seed", run_seed)
            yield {"program": prog, "index": i}
            i += 1

    def on_result(job, res):
        agg["runs"] += 1
        if res.get("harness_error"):
            agg["harness_errors"] += 1
            if len(errors) < 5:
                errors.append({"seed": job["program"].get("seed"), "error": res["harness_error"][-1500:]})
            return len(errors) < 5
        if res.get("harness_timeout"):
            agg["harness_timeouts"] += 1
            if len(errors) < 5:
                errors.append({"seed": job["program"].get("seed"), "error": "child exceeded wall budget"})
            return True
        agg["evals"] = agg.get("evals", 0) + res.get("evals", 1)
        agg["steps"] += res.get("steps", 0)
        agg["sim_seconds"] += res.get("sim_seconds", 0.0)
        merge_counts(agg["faults"], res.get("faults"))
        merge_counts(agg["rules"], res.get("rules"))
        merge_counts(agg["stats"], res.get("stats"))
        merge_counts(agg["probes"], res.get("probes"))
        if res.get("ended_by_known_finding"):
            agg["ended_by_known_finding"] += 1
        sig = res.get("signature")
        if res.get("nontrivial") and sig:
            signatures.add(sig)
        for h in res.get("state_hashes", []):
            state_hashes.add(h)
        if len(samples) < 3 and res.get("sample") is not None:
            samples.append(res["sample"])
        for v in res.get("violations", []):
            if v["property"] != check_id:
                key = f'{v["property"]}:{v["rule"]}'
                foreign[key] = foreign.get(key, 0) + 1
                continue
            e = kf.match(v)
            if e is not None:
                known_hits.setdefault(e["id"], {"entry": e, "count": 0})["count"] += 1
                continue
            new_violations.append((job["program"], v))
        for v in res.get("known_hits", []):
            e = kf.match(v)
            if e is not None and v["property"] == check_id:
                known_hits.setdefault(e["id"], {"entry": e, "count": 0})["count"] += 1
        return len(new_violations) == 0

    deadline = _real_time() + budget
    pool.run(jobs(), on_result, deadline=deadline)

    # determinism self-test on a sample (same program twice, digests must match)
    det = {"programs": 0, "mismatches": 0}
    if not new_violations and not errors and cfg.get("selftest", True):
        r2 = random.Random(seed ^ 0x5EED)
        progs = []
        for i in range(cfg.get("selftest_n", {}).get(tier, 4)):
            p = check_mod.generate(r2.getrandbits(48), tier, i, kf)
            if p is not None:
                p.setdefault("check", check_id)
                progs.append(p)
        digs = {}

        def on_det(job, res):
            k = job["k"]
            d = res.get("digest")
            if res.get("harness_error") or res.get("harness_timeout"):
                errors.append({"seed": job["program"].get("seed"), "error": str(res.get("harness_error", "timeout"))[-800:]})
                return
            if k in digs and digs[k] != d:
                det["mismatches"] += 1
                errors.append({"seed": job["program"].get("seed"), "error": "nondeterministic: event-log digests differ for the same program"})
            digs[k] = d

        pool.run([{"program": p, "k": k} for k, p in enumerate(progs) for _ in (0, 1)], on_det)
        det["programs"] = len(progs)

    rc = 0
    lines = []
    for kid, hit in sorted(known_hits.items()):
        e = hit["entry"]
        lines.append(f'KNOWN-FINDING: property={e["property"]} {e["note"]} [{kid}; seen {hit["count"]}x]')
    replay_paths = []
    if new_violations:
        # one minimised replay per distinct (property, rule)
        seen = set()
        rdir = os.environ.get("VERIF_REPLAY_DIR") or os.path.join(VERIF, "replays")
        os.makedirs(rdir, exist_ok=True)
        for prog, v in new_violations:
            s = _sig(v)
            if s in seen:
                continue
            seen.add(s)
            small = minimise(pool, check_mod, prog, s, kf, budget=cfg.get("minimise_budget", 120))
            res = pool.run_one(small, {"replay": True})
            hit = [x for x in res.get("violations", []) if _sig(x) == s and kf.match(x) is None]
            if not hit:
                # minimised program does not reproduce; fall back to the original
                res = pool.run_one(prog, {"replay": True})
                hit = [x for x in res.get("violations", []) if _sig(x) == s and kf.match(x) is None]
                small = prog
            if not hit:
                errors.append({"seed": prog.get("seed"), "error": f"violation {s} did not reproduce on replay (harness nondeterminism)"})
                continue
            small = dict(small)
            small["expect"] = {"property": s[0], "rule": s[1], "detail": hit[0].get("detail")}
            name = f'{check_id}-{small.get("seed")}-{s[1]}.json'
            path = os.path.join(rdir, name)
            with open(path, "w") as f:
                json.dump(small, f, indent=1, default=_jsonable)
            replay_paths.append(path)
            lines.append(f"VIOLATION property={check_id} replay={path}")
            lines.append(f"  rule={s[1]} detail={json.dumps(hit[0].get('detail'), default=_jsonable)[:400]}")
            rc = 1
    if errors and rc == 0:
        rc = 3

    wall = _real_time() - t_start
    distinct = len(signatures)
    evaluations = agg["runs"]
    if cfg.get("count_mode") == "states":
        evaluations = agg.get("evals", 0)
        distinct = len(state_hashes)
    ev = {
        "property_id": check_id,
        "tier": tier,
        "seed": seed,
        "level": cfg["level"],
        "coverage": {
            "evaluations": evaluations,
            "simulated_runs": agg["runs"],
            "distinct_nontrivial": distinct,
            "rule": cfg["rule"],
            "samples": samples,
            "runs_per_hour": int(agg["runs"] / max(wall, 1e-6) * 3600),
            "simulated_seconds": round(agg["sim_seconds"], 1),
            "loop_steps": agg["steps"],
            "faults_fired": agg["faults"],
            "oracle_evaluations": agg["rules"],
            "reach_probes": agg["probes"],
            "sim_stats": agg["stats"],
            "distinct_model_states": len(state_hashes),
            "components_real": cfg.get("real", []),
            "components_stub": cfg.get("stub", []),
            "determinism_selftest": det,
            "known_findings_reconfirmed": {k: v["count"] for k, v in known_hits.items()},
            "ended_by_known_finding": agg["ended_by_known_finding"],
            "other_property_observations": foreign,
            "harness_errors": errors,
            "processes": nproc,
        },
        "assumptions": cfg.get("assumptions", []),
        "wall_s": round(wall, 2),
        "violations": len(replay_paths),
    }
    if cfg.get("exhaustive_note"):
        ev["coverage"]["exhaustive_note"] = cfg["exhaustive_note"]
    zero = [k for k, v in agg["probes"].items() if v == 0]
    for k in cfg.get("expected_probes", []):
        if agg["probes"].get(k, 0) == 0:
            zero.append(k)
    if zero:
        ev["coverage"]["probes_stuck_at_zero"] = sorted(set(zero))
    write_evidence(check_id, ev)
    for ln in lines:
        print(ln)
    print(
        f"{check_id} {tier}: runs={agg['runs']} distinct_nontrivial={distinct} steps={agg['steps']} "
        f"sim_s={agg['sim_seconds']:.0f} wall={wall:.1f}s violations={len(replay_paths)} "
        f"known={len(known_hits)} harness_errors={len(errors)} exit={rc}"
    )
    if errors:
        for e in errors[:5]:
            print("HARNESS-ERROR:", json.dumps(e)[:1200], file=sys.stderr)
    shutil.rmtree(scratch_base(), ignore_errors=True)
    return rc


def replay_main(path):
    with open(path) as f:
        prog = json.load(f)
    check_id = prog["check"]
    check_mod = importlib.import_module(f"checks.{check_id.lower()}")
    kf = KnownFindings()
    pool = Pool(check_mod, 1, wall=check_mod.CONFIG.get("wall", 60) * 2)
    res = pool.run_one(prog, {"replay": True, "transcript": True})
    print(f"replay {path}: seed={prog.get('seed')} digest={res.get('digest')}")
    if res.get("harness_error"):
        print(res["harness_error"])
        return 3
    for ln in res.get("transcript", []):
        print("  ", json.dumps(ln, default=_jsonable)[:300])
    exp = prog.get("expect") or {}
    rc = 0
    for v in res.get("violations", []):
        mark = ""
        if v["property"] == exp.get("property") and v["rule"] == exp.get("rule"):
            mark = "  <== expected"
            rc = 1
        e = kf.match(v)
        if e is not None:
            mark += f"  (known finding {e['id']})"
        print(f"VIOLATION-DETAIL property={v['property']} rule={v['rule']} detail={json.dumps(v['detail'], default=_jsonable)[:500]}{mark}")
    if rc:
        print(f"VIOLATION property={exp.get('property')} replay={path}")
    else:
        print("expected violation did NOT reproduce")
    shutil.rmtree(scratch_base(), ignore_errors=True)
    return rc
