"""Regenerates /verif/MANIFEST.json from the check modules (keeps it valid)."""
import importlib
import json
import os
import sys

VERIF = os.path.dirname(os.path.dirname(os.path.abspath(__file__)))
sys.path.insert(0, VERIF)

NA = {
    "C08": "pure function of one input string (command parser): no schedule, clock, fault or history for a simulator to vary; needs grammar-directed input generation, which is a different technique (DESIGN.md section 6)",
    "C14": "SEARCH evaluation over a fixed mailbox state is a pure function of (search program, messages); the conflict relation that keeps mutators out is covered by C10 (DESIGN.md section 6)",
    "C15": "differential statement over pure interpreters of one sequence-set text; the suggested decision procedure is bounded exhaustive enumeration, not simulation (DESIGN.md section 6)",
    "C16": "equations between renderings of one stored message: pure function of message bytes and section/partial arguments (DESIGN.md section 6)",
}
ALL = [f"C{i:02d}" for i in range(1, 21)]


def main():
    checks = []
    na = []
    for cid in ALL:
        path = os.path.join(VERIF, "checks", cid.lower() + ".py")
        if cid in NA:
            na.append({"property_id": cid, "reason": NA[cid]})
            continue
        if not os.path.exists(path):
            na.append({"property_id": cid, "reason": "check not built yet (work in progress); planned per DESIGN.md section 5"})
            continue
        mod = importlib.import_module("checks." + cid.lower())
        cfg = mod.CONFIG
        checks.append(
            {
                "property_id": cid,
                "quick_cmd": f"./run check {cid} --tier quick",
                "thorough_cmd": f"./run check {cid} --tier thorough",
                "evidence_file": f"/verif/evidence/{cid}.json",
                "replay_cmd_template": "./run replay {path}",
                "engine": "detsim",
                "level_claimed": {"category": cfg["level"], "text": cfg["level_text"], "design_ref": cfg.get("design_ref", "DESIGN.md section 5 " + cid)},
                "level_note": cfg["level_note"],
                "technique": cfg.get("technique", "deterministic simulation with fault injection: seeded search over schedules/histories, reference-model oracle"),
            }
        )
    doc = {
        "version": 1,
        "setup_cmd": "./setup.sh",
        "hooks": {
            "guard": "ASIMAP_VERIF",
            "enable": "none needed: every seam is a module-attribute patch installed by /verif/sim from outside the repository (ASIMAP_VERIF is reserved, unused)",
            "baseline_off_cmd": "cd /repo && /venv/bin/python -m pytest -ra -q -p no:cacheprovider --timeout=900 --continue-on-collection-errors",
            "source_commits": [],
            "add_only": True,
        },
        "engines": [
            {
                "name": "detsim", "path": "/verif/run", "serves_properties": [c["property_id"] for c in checks],
                "kind_free_text": "deterministic simulation with fault injection: virtual-time asyncio loop, simulated sqlite worker/executor/TCP/file mtimes, seeded programs, reference models, ddmin replay files",
            }
        ],
        "checks": checks,
        "not_applicable": na,
        "notes": "Checks import /repo's working tree afresh on every invocation (VERIF_REPO overrides, used only by ./run mutants). Exit 0 ok / 1 VIOLATION / 3 harness error.",
    }
    with open(os.path.join(VERIF, "MANIFEST.json"), "w") as f:
        json.dump(doc, f, indent=1)
    print("MANIFEST.json:", len(checks), "checks,", len(na), "not applicable")


if __name__ == "__main__":
    main()
