import os
import sys

VERIF = os.path.dirname(os.path.dirname(os.path.abspath(__file__)))
sys.path.insert(0, VERIF)
sys.path.insert(0, os.environ.get("VERIF_REPO", "/repo"))


def main(argv):
    if os.environ.get("PYTHONHASHSEED") != "0" and not os.environ.get("VERIF_ALLOW_HASHSEED"):
        os.environ["PYTHONHASHSEED"] = "0"
        os.execv(sys.executable, [sys.executable] + sys.argv)
    if not argv:
        print("usage: run check <ID> [--tier quick|thorough] | replay <file> | selftest | mutants")
        return 3
    from harness import runctx

    cmd = argv[0]
    if cmd == "check":
        cid = argv[1].upper()
        tier = os.environ.get("VERIF_TIER", "quick")
        if "--tier" in argv:
            tier = argv[argv.index("--tier") + 1]
        runctx.prepare_parent()
        from harness.driver import check_main

        return check_main(cid, tier, argv[2:])
    if cmd == "replay":
        runctx.prepare_parent()
        from harness.driver import replay_main

        return replay_main(argv[1])
    if cmd == "seed":
        # ./run seed <ID> <run-seed> [index]: execute the program generated from one run seed
        runctx.prepare_parent()
        import importlib, json
        from harness.driver import KnownFindings, Pool, minimise, VERIF

        cid = argv[1].upper()
        mod = importlib.import_module(f"checks.{cid.lower()}")
        kf = KnownFindings()
        prog = mod.generate(int(argv[2]), "quick", int(argv[3]) if len(argv) > 3 else 0, kf)
        prog.setdefault("check", cid)
        prog.setdefault("seed", int(argv[2]))
        pool = Pool(mod, 8, wall=mod.CONFIG.get("wall", 60) * 2)
        res = pool.run_one(prog, {})
        vs = [v for v in res.get("violations", []) if v["property"] == cid and kf.match(v) is None]
        print("harness_error:", res.get("harness_error"), "timeout:", res.get("harness_timeout"), "violations:", [(v["rule"]) for v in vs])
        if vs:
            sig = (vs[0]["property"], vs[0]["rule"])
            small = minimise(pool, mod, prog, sig, kf, budget=150)
            small["expect"] = {"property": sig[0], "rule": sig[1]}
            path = os.path.join(VERIF, "replays", f"{cid}-{argv[2]}-{sig[1]}.json")
            os.makedirs(os.path.dirname(path), exist_ok=True)
            json.dump(small, open(path, "w"), indent=1, default=str)
            print("replay written:", path)
            return 1
        return 0
    if cmd == "selftest":
        runctx.prepare_parent()
        from harness.selftest import selftest_main

        return selftest_main(argv[1:])
    if cmd == "selftest-worker":
        # fresh interpreter (possibly another PYTHONHASHSEED): run programs from a file, print digests
        runctx.prepare_parent()
        from harness.selftest import worker_main

        return worker_main(argv[1:])
    if cmd == "mutants":
        from harness.mutants import mutants_main

        return mutants_main(argv[1:])
    print("unknown command", cmd)
    return 3


if __name__ == "__main__":
    try:
        rc = main(sys.argv[1:])
    except SystemExit:
        raise
    except BaseException:
        import traceback

        traceback.print_exc()
        rc = 3
    sys.stdout.flush()
    sys.exit(rc)
