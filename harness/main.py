import os
import sys

VERIF = os.path.dirname(os.path.dirname(os.path.abspath(__file__)))
sys.path.insert(0, VERIF)
sys.path.insert(0, os.environ.get("VERIF_REPO", "/repo"))


def main(argv):
    if os.environ.get("PYTHONHASHSEED") != "0":
        os.environ["PYTHONHASHSEED"] = "0"
        os.execv(sys.executable, [sys.executable] + sys.argv)
    if not argv:
        print("usage: run check <ID> [--tier quick|thorough] | replay <file> | selftest | mutants")
        return 3
    from harness import runctx

    cmd = argv[0]
    if cmd == "check":
        cid = argv[1].upper()
        tier = os.environ.get("VERIF_TIER", "quick")
        if "--tier" in argv:
            tier = argv[argv.index("--tier") + 1]
        runctx.prepare_parent()
        from harness.driver import check_main

        return check_main(cid, tier, argv[2:])
    if cmd == "replay":
        runctx.prepare_parent()
        from harness.driver import replay_main

        return replay_main(argv[1])
    if cmd == "selftest":
        runctx.prepare_parent()
        from harness.selftest import selftest_main

        return selftest_main(argv[1:])
    if cmd == "mutants":
        from harness.mutants import mutants_main

        return mutants_main(argv[1:])
    print("unknown command", cmd)
    return 3


if __name__ == "__main__":
    try:
        rc = main(sys.argv[1:])
    except SystemExit:
        raise
    except BaseException:
        import traceback

        traceback.print_exc()
        rc = 3
    sys.stdout.flush()
    sys.exit(rc)
