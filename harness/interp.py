"""
World-A scenario interpreter.

Executes a *program* (JSON: store, sessions, ops) against the real per-user
asimap process under the simulator, in one of two modes:

  sequential  one client command in flight at a time; after every op the
              reference model (MailStoreModel) is compared with what a
              dedicated observer session and an MH-tool-style read of
              .mh_sequences see.
  concurrent  sessions run their op lists independently; only stream
              monitors, the UID ledger and end-of-run probes are active.

Rules are tagged with the property they belong to; every check reports only
its own property's rules.
"""

import asyncio
import calendar
import hashlib
import mailbox as stdmailbox
import os
import random
import re

from gen import corpus
from model.resp import Atom, Lit, QStr, fetch_items
from sim.seams import EPOCH
from sim.world import ImapSession, Pop3Session, UserNode, PROMPT_BOUND

SYSTEM = {"\\seen", "\\answered", "\\flagged", "\\deleted", "\\draft", "\\recent"}
FLAG_TO_SEQ = {"\\answered": "replied", "\\deleted": "Deleted", "\\draft": "Draft", "\\flagged": "flagged", "\\seen": "Seen"}
MONTHS = {m: i + 1 for i, m in enumerate("Jan Feb Mar Apr May Jun Jul Aug Sep Oct Nov Dec".split())}
SPECIAL_USE = {"Junk", "Archive", "Sent Messages", "Drafts", "Deleted Messages"}


def canon_flag(f):
    f = str(f)
    return f.lower() if f.startswith("\\") else f


def norm_flags(flags, keep_unseen=False):
    out = set()
    for f in flags:
        c = canon_flag(f)
        if c == "\\recent":
            continue
        if c == "unseen" and not keep_unseen:
            continue
        out.add(c)
    return frozenset(out)


def parse_internaldate(s):
    m = re.match(r"\s*(\d{1,2})-(\w{3})-(\d{4}) (\d\d):(\d\d):(\d\d) ([+-])(\d\d)(\d\d)", s)
    if not m:
        return None
    d, mon, y, hh, mm, ss, sg, zh, zm = m.groups()
    t = calendar.timegm((int(y), MONTHS.get(mon, 1), int(d), int(hh), int(mm), int(ss)))
    off = (int(zh) * 60 + int(zm)) * 60
    return t - off if sg == "+" else t + off


def fmt_internaldate(t):
    import time as _t

    g = _t.gmtime(t)
    mon = "Jan Feb Mar Apr May Jun Jul Aug Sep Oct Nov Dec".split()[g.tm_mon - 1]
    return f"{g.tm_mday:02d}-{mon}-{g.tm_year} {g.tm_hour:02d}:{g.tm_min:02d}:{g.tm_sec:02d} +0000"


def parse_uidset(s):
    out = []
    for part in str(s).split(","):
        if ":" in part:
            a, b = part.split(":")
            a, b = int(a), int(b)
            if a > b:
                a, b = b, a
            out.extend(range(a, b + 1))
        elif part:
            out.append(int(part))
    return out


def quote(name):
    return '"' + name.replace("\\", "\\\\").replace('"', '\\"') + '"'


_ATOM_NAME = re.compile(r"[A-Za-z0-9_.+\-/=!$&',:;<>?@^`|~]+\Z")


def spell(name, op):
    """The mailbox name as this op writes it: a bare atom when the op asks for it and the name allows it, else quoted."""
    if op.get("bare") and _ATOM_NAME.match(name):
        return name
    return quote(name)


def code_of(res, name):
    """Response code `name` from the tagged reply or an untagged OK."""
    cands = []
    if res.code:
        cands.append(res.code)
    for u in res.untagged:
        if u.kind == "OK" and u.code:
            cands.append(u.code)
    for c in cands:
        if c and isinstance(c[0], Atom) and c[0].upper() == name:
            return c[1:]
    return None


# ---------------------------------------------------------------------------
# reference model
#
class MMsg:
    __slots__ = ("uid", "tok", "flags", "date", "born", "amb", "mh_amb")

    def __init__(self, uid, tok, flags, date):
        self.uid = uid
        self.tok = tok
        self.flags = frozenset(flags)
        self.date = date
        self.born = None
        self.amb = False  # split delivery: \\Seen depends on when asimap looked
        self.mh_amb = False


class MBox:
    def __init__(self, name):
        self.name = name
        self.msgs = []
        self.uvv = None
        self.uvv_history = []
        self.max_uid = 0  # highest uid ever revealed in this incarnation
        self.uidnext_told = 0
        self.subscribed = False
        self.noselect = False
        self.ledger = {}  # uid -> tok (this incarnation)
        self.claims = {}  # uid -> (tok, command): what an APPENDUID / COPYUID said the uid holds
        self.maybe = {}  # tok -> MMsg: deliveries whose fate the model lost track of (may turn up, need not)
        self.nonrecent = set()  # uids the observer has seen without \Recent (it can never come back)
        self.uncertain = False  # model lost track (after a tolerated finding)
        self.renamed_in = False  # got its current name through RENAME before its UIDVALIDITY was ever seen

    def by_uid(self, uid):
        for m in self.msgs:
            if m.uid == uid:
                return m
        return None

    def state_hash(self):
        return hash(tuple((m.uid, m.tok, m.flags) for m in self.msgs))


class MSession:
    def __init__(self, sid):
        self.sid = sid
        self.selected = None  # MBox
        self.readonly = False
        self.know = {}  # uid -> flags last told
        self.maybe_pending = False  # others changed the mailbox since last flush
        self.dead = False


class Model:
    def __init__(self):
        self.boxes = {}
        self.name_uvv_max = {}  # name -> highest UIDVALIDITY the name ever had
        self.pair_owner = {}  # (name, UIDVALIDITY) -> incarnation that was first seen under it
        self.sessions = {}

    def box(self, name):
        if name is None:
            return None
        return self.boxes.get(norm_mbox_name(name))

    def children(self, name):
        p = name + "/"
        return [n for n in self.boxes if n.startswith(p)]


BLAMEABLE = {
    ("C04", "flags_diverge"), ("C05", "message_lost"), ("C05", "message_unexpected"), ("C05", "date_differs"),
    ("C03", "order_or_uid_changed"), ("C13", "mh_sequences_diverge"), ("C03", "seq_uid_mismatch"), ("C17", "mailbox_unselectable"),
}


# ---------------------------------------------------------------------------
class Interp:
    def __init__(self, ctx):
        self.ctx = ctx
        self.prog = ctx.program
        self.world = ctx.world
        self.env = ctx.env
        self.loop = ctx.env.loop
        self.mode = self.prog.get("mode", "sequential")
        self.sequential = self.mode == "sequential"
        self.maildir = os.path.join(ctx.jail, "alice", "Mail")
        self.node = None
        self.sessions = {}
        self.pops = {}
        self.obs = None
        self.model = Model()
        # schedule-independent "which message did it hit" oracles (C03/C05)
        self.tag_stores = bool(self.prog.get("tag_stores"))
        self.tags = {}  # unique keyword -> {"uvv":, "asked": set | None, ...}
        self.unanswered = []  # UID FETCH requests for a known message that returned nothing for it
        self.selfcopied = set()  # UIDVALIDITYs of mailboxes that were the destination of their own COPY/MOVE
        self.tag_taint = False
        self.split_delivered = False
        self.delivered_seen = {}  # tok -> bool | None
        self.seen_oracle = bool(self.prog.get("seen_oracle"))
        self.probe_p = float(self.prog.get("probe_p", 1.0))
        self.probe_rng = random.Random(int(self.prog.get("seed", 0)) ^ 0x0B5E)
        self.uidexp_only = bool(self.prog.get("uidexpunge_only"))  # family in which UID EXPUNGE <set> is the only way messages go away
        self.uidexp_allowed = {}  # (name, uvv) -> UIDs named by some UID EXPUNGE
        self.seen_uids = {}  # (name, uvv) -> UIDs some session was shown
        self.other_removal = False
        self.ntok = 1000
        self.refbody = {}  # tok -> bytes first returned by the server
        self.refdate = {}
        self.op_index = 0
        self.results = []  # (op, brief result)
        self.props = set(self.prog.get("props") or [])
        self.compare = self.prog.get("compare", True) and self.sequential
        self.ended = None
        self.restarts = 0
        self.known_hits = []
        self.delivered_pending = []  # (box, MMsg, t) delivered, announcement due
        self.delivered = set()  # (folder path, key) written by the MH agent
        self.blame = None  # (property, rule) to charge state divergence to

    # ------------------------------------------------------------------ util
    def V(self, prop, rule, **detail):
        """Record a violation unless it is a listed (tolerated) known finding."""
        if self.blame is not None and (prop, rule) in BLAMEABLE:
            detail["underlying"] = f"{prop}:{rule}"
            prop, rule = self.blame
        v = {"property": prop, "rule": rule, "detail": detail}
        kf = self.world.known
        if kf is not None:
            e = kf.match(v)
            if e is not None:
                self.known_hits.append(v)
                self.world.note("KNOWN", prop, rule, detail)
                return e
        detail.setdefault("op", self.op_index)
        self.world.violate(prop, rule, **detail)
        return None

    def C(self, rule, n=1):
        self.world.count(rule, n)

    def new_tok(self):
        self.ntok += 1
        return self.ntok

    # ------------------------------------------------------------ store setup
    def build_store(self):
        os.makedirs(self.maildir, exist_ok=True)
        store = self.prog.get("store") or {"mailboxes": [{"name": "inbox", "msgs": []}]}
        mh = stdmailbox.MH(self.maildir)
        now = self.env.wall()
        for mb in store["mailboxes"]:
            name = mb["name"]
            path = os.path.join(self.maildir, name)
            os.makedirs(path, exist_ok=True)
            seqs = {}
            box = MBox(name)
            for i, m in enumerate(mb.get("msgs", [])):
                key = m.get("key", i + 1)
                data = corpus.build(m.get("shape", "plain"), m["tok"])
                fn = os.path.join(path, str(key))
                with open(fn, "wb") as f:
                    f.write(data)
                os.utime(fn, (m["date"], m["date"]))
                fl = [canon_flag(x) for x in m.get("flags", [])]
                if "\\seen" not in fl:
                    seqs.setdefault("unseen", []).append(key)
                for x in fl:
                    if x == "\\seen":
                        continue
                    seqs.setdefault(FLAG_TO_SEQ.get(x, x), []).append(key)
                box.msgs.append(MMsg(None, m["tok"], norm_flags(fl), int(m["date"])))
            folder = stdmailbox.MH(path, create=False)
            if seqs:
                folder.set_sequences(seqs)
            else:
                open(os.path.join(path, ".mh_sequences"), "a").close()
            box.subscribed = bool(mb.get("subscribed"))
            self.model.boxes[name] = box
            # intermediate directories are mailboxes too
            parts = name.split("/")
            for j in range(1, len(parts)):
                pn = "/".join(parts[:j])
                if pn not in self.model.boxes:
                    self.model.boxes[pn] = MBox(pn)
        if "inbox" not in self.model.boxes:
            os.makedirs(os.path.join(self.maildir, "inbox"), exist_ok=True)
            self.model.boxes["inbox"] = MBox("inbox")
        self._pending_subscribe = [b.name for b in self.model.boxes.values() if b.subscribed]
        for b in self.model.boxes.values():
            b.subscribed = False

    # ---------------------------------------------------------------- running
    async def start_node(self):
        self.node = UserNode(self.world, self.maildir)
        ok = await self.node.start()
        if not ok:
            self.V("C12" if self.restarts else "C11", "restart_failed", error=self.node.start_error, generation=self.node.generation)
            return False
        if getattr(self.ctx, "db_fault_state", None) is not None:
            self.ctx.db_fault_state["on"] = True
        return True

    def connect(self, sid, addr="10.0.0.1"):
        s = ImapSession(self.world, sid, addr)
        s.on_response = self._on_response
        self.world.net.connect(self.node.port, s, addr=addr)
        self.sessions[sid] = s
        self.model.sessions[sid] = MSession(sid)
        return s

    async def setup(self):
        self.build_store()
        if not await self.start_node():
            return False
        # SPECIAL-USE folders are created by the server at start-up
        for n in sorted(SPECIAL_USE):
            if n not in self.model.boxes:
                self.model.boxes[n] = MBox(n)
        self.obs = self.connect("obs", "10.0.0.9")
        for s in self.prog.get("sessions", []):
            if s.get("proto", "imap") == "imap":
                self.connect(s["id"], s.get("addr", "10.0.0.1"))
        for name in self._pending_subscribe:
            r = await self.obs.command(f"SUBSCRIBE {quote(name)}")
            if r.ok:
                self.model.box(name).subscribed = True
        if self.compare:
            await self.probe_all(initial=True)
        return True

    async def run(self):
        if not await self.setup():
            return
        ops = self.prog.get("ops", [])
        if self.sequential:
            for i, op in enumerate(ops):
                self.op_index = i
                if self.ended:
                    break
                await self.do_op(op)
                if self.world.violations and self.ctx.opts.get("stop_early"):
                    break
            if not self.ended and self.compare:
                self.op_index = len(ops)
                await self.probe_all(final=True)
        else:
            await self.run_concurrent(ops)
        await self.teardown()

    async def teardown(self):
        for s in list(self.sessions.values()):
            s.close()
        for p in list(self.pops.values()):
            p.close()
        await asyncio.sleep(0.01)
        if self.node is not None and self.node.alive():
            # orderly stop only if nobody is connected any more; never block
            self.node.run_task.cancel()
            await asyncio.wait({self.node.run_task}, timeout=30)

    # ---------------------------------------------------------- concurrency
    async def run_concurrent(self, ops):
        by_actor = {}
        order = []
        for i, op in enumerate(ops):
            a = op.get("s") or op.get("actor") or "driver"
            if a not in by_actor:
                by_actor[a] = []
                order.append(a)
            by_actor[a].append((i, op))
        done_at = {}
        events = {i: asyncio.Event() for i, _ in enumerate(ops)}

        async def actor(name, items):
            for i, op in items:
                if self.ended:
                    break
                wh = op.get("when") or {}
                if "after" in wh and wh["after"] in events:
                    await events[wh["after"]].wait()
                d = wh.get("delay", 0.0)
                if d:
                    await asyncio.sleep(d)
                self.op_index = i
                try:
                    await self.do_op(op)
                finally:
                    events[i].set()

        tasks = [self.loop.create_task(actor(a, by_actor[a]), name=f"actor-{a}") for a in order]
        budget = self.prog.get("virtual_budget", 1200.0)
        done, pend = await asyncio.wait(tasks, timeout=budget)
        if pend:
            self.V("C10", "starvation", pending=[t.get_name() for t in pend], waitfor=self.waitfor_picture())
            for t in pend:
                t.cancel()
            await asyncio.wait(pend, timeout=5)
        for t in done:
            if not t.cancelled() and t.exception() is not None:
                raise t.exception()
        self.ctx.nontrivial = True
        await self.final_flush_check()
        await self.check_hit_oracles()
        if self.prog.get("ns_quiescent"):
            await self.check_namespace_quiescent()

    async def check_namespace_quiescent(self):
        """C17 under concurrency: whatever the interleaving of CREATE/DELETE/RENAME from several sessions, once everything
        is answered the two sources of truth agree - LIST shows exactly the folders that exist on disk (a name listed
        once), no temporary symlink is left, every listed mailbox that is not \\Noselect can be selected - and an
        orderly restart changes nothing."""
        if self.obs is None or self.obs.lost:
            self.obs = self.connect("obs", "10.0.0.9")
        await asyncio.sleep(8.0)  # (the idle poll / folder scan)
        self.C("c17_ns_quiescent")

        async def listed():
            r = await self.obs.command('LIST "" "*"')
            out = {}
            dup = []
            for n, attrs in self.parse_list(r):
                k = "inbox" if n.upper() == "INBOX" else n
                if k in out:
                    dup.append(k)
                out[k] = set(attrs)
            return out, dup

        def on_disk():
            dirs, links = set(), []
            for root, ds, files in os.walk(self.maildir):
                ds.sort()
                for d_ in list(ds):
                    p_ = os.path.join(root, d_)
                    rel = os.path.relpath(p_, self.maildir)
                    if os.path.islink(p_):
                        links.append(rel)
                    else:
                        dirs.add(rel)
            return dirs, links

        got, dup = await listed()
        dirs, links = on_disk()
        detail = {"ops": [f"{o.get('s')}:{o.get('op')}" for o in self.prog.get("ops", [])][:12]}
        if dup:
            self.V("C17", "concurrent_namespace_inconsistent", what="listed twice", names=sorted(dup)[:6], **detail)
        if links:
            self.V("C17", "concurrent_namespace_inconsistent", what="symlink left in the mail directory", names=links[:6], **detail)
        missing = sorted(d_ for d_ in dirs if d_ not in got)
        extra = sorted(n for n in got if n not in dirs)
        if missing or extra:
            self.V("C17", "concurrent_namespace_inconsistent", what="LIST and the folders on disk differ", on_disk_not_listed=missing[:6], listed_not_on_disk=extra[:6], **detail)
        for n, attrs in sorted(got.items()):
            if "\\noselect" in attrs or n not in dirs:
                continue
            e = await self.obs.command(f"EXAMINE {quote('INBOX' if n == 'inbox' else n)}")
            if not e.ok:
                self.V("C17", "concurrent_namespace_inconsistent", what="listed mailbox can not be selected", names=[n], reply=e.brief(), **detail)
                break
            await self.obs.command("UNSELECT")
        before = {n: sorted(a & {"\\noselect", "\\haschildren", "\\hasnochildren"}) for n, a in got.items()}
        await self.op_restart({"actor": "life", "op": "restart", "kind": "cancel", "compare": False})
        if self.ended:
            return
        got2, _ = await listed()
        after = {n: sorted(a & {"\\noselect", "\\haschildren", "\\hasnochildren"}) for n, a in got2.items()}
        if {n for n in after if n not in SPECIAL_USE} != {n for n in before if n not in SPECIAL_USE}:
            self.V("C17", "concurrent_namespace_inconsistent", what="the mailbox list changed through an orderly restart",
                   appeared=sorted(set(after) - set(before))[:6], lost=sorted(set(before) - set(after))[:6], **detail)

    async def final_flush_check(self):
        """Concurrent mode epilogue: at quiescence every selected session is
        flushed (NOOP) and its replayed view must equal the server's list."""
        await asyncio.sleep(0.5)
        for sid, sess in list(self.sessions.items()):
            ms = self.model.sessions.get(sid)
            if sid == "obs" or sess.lost or ms is None or ms.dead or sess.view is None or sess.selected is None:
                continue
            if getattr(ms, "idling", False):
                r = await sess.idle_done()
                ms.idling = False
                if r is None or r.status is None:
                    continue
            r = await self.run_cmd(sess, ms, "NOOP")
            if not r.ok or sess.view is None:
                continue
            n_before = len(sess.view)
            f = await self.run_cmd(sess, ms, "UID FETCH 1:* (UID)")
            if not f.ok or sess.view is None:
                continue
            self.C("c01_flush_equal")
            got = [u for u in f.untagged if u.kind == "FETCH"]
            # (new arrivals between the NOOP and the FETCH extend the view via EXISTS first)
            if len(got) != len(sess.view):
                self.V(
                    "C01", "view_differs_after_flush", session=sid, verb="NOOP", view=len(sess.view), server=len(got), mailbox=sess.selected,
                )
            # C13: everything an MH agent has put into the folder has been announced by now
            # (unless it arrived in the very second the folder was last written: C13 conditions
            # on the mtime having advanced, which one-second granularity cannot show then)
            name = "inbox" if (sess.selected or "").lower() == "inbox" else sess.selected
            path = os.path.join(self.maildir, name or "")
            if self.delivered and os.path.isdir(path):
                self.C("c13_disk_vs_view")
                keys = [k for k in os.listdir(path) if k.isdigit() and not os.path.isdir(os.path.join(path, k))]
                try:
                    fm = int(max(os.stat(path).st_mtime, os.stat(os.path.join(path, ".mh_sequences")).st_mtime))
                    newest = max((int(os.stat(os.path.join(path, k)).st_mtime) for k in keys if (path, k) in self.delivered), default=None)
                except OSError:
                    continue
                if len(keys) > len(sess.view) and newest is not None and newest < fm:
                    # give the poll (1-5 s) one more chance, then it is a miss
                    await asyncio.sleep(6.0)
                    r2 = await self.run_cmd(sess, ms, "NOOP")
                    if r2.ok and sess.view is not None and len([k for k in os.listdir(path) if k.isdigit() and not os.path.isdir(os.path.join(path, k))]) > len(sess.view):
                        self.V("C13", "delivery_not_announced", session=sid, verb="NOOP", view=len(sess.view), files=len(keys), mailbox=name, mode="concurrent")

    def waitfor_picture(self):
        out = {}
        try:
            srv = self.node.server
            for name, mb in srv.active_mailboxes.items():
                out[name] = {
                    "executing": [str(c.command) for c in mb.executing_tasks],
                    "queued": mb.task_queue.qsize(),
                }
        except Exception:
            out["whitebox_unavailable"] = True
        return out

    # -------------------------------------------------------------- dispatch
    async def do_op(self, op):
        kind = op["op"]
        fn = getattr(self, "op_" + kind, None)
        if fn is None:
            raise ValueError(f"unknown op {kind}")
        self.ctx.sig(op.get("s") or op.get("actor"), kind)
        await fn(op)

    def sess(self, op):
        return self.sessions.get(op["s"]), self.model.sessions.get(op["s"])

    # ------------------------------------------------------------- responses
    def _on_response(self, sess, r):
        """Ledger / flag-knowledge hooks fed by every response of a session."""
        if r.kind != "FETCH" or sess.view is None or r.num is None:
            return
        try:
            items = fetch_items(r)
        except Exception:
            return
        n = r.num
        if not (1 <= n <= len(sess.view)):
            return
        u = items.get("UID")
        uid = int(u) if isinstance(u, Atom) and u.isdigit() else sess.view[n - 1]
        ms = self.model.sessions.get(sess.sid)
        if ms is None:
            return
        box = ms.selected
        if uid is None and "FLAGS" in items:
            # cell not yet bound to a uid for this session. It can only be resolved (by position,
            # through the model) once the whole response is in: an EXPUNGE later in the same flush
            # means this number was from before it, even if view and model have the same length now
            ms.know = {}
            if isinstance(items["FLAGS"], list):
                pend = getattr(sess, "_unresolved_flags", None)
                if pend is None:
                    pend = sess._unresolved_flags = []
                pend.append((n, norm_flags(items["FLAGS"])))
        if "FLAGS" in items and isinstance(items["FLAGS"], list) and uid is not None:
            ms.know[uid] = norm_flags(items["FLAGS"])
            d_ = getattr(sess, "_direct_uids", None)
            if d_ is not None:
                d_.add(uid)
            fl = {canon_flag(x) for x in items["FLAGS"]}
            self.C("c04_seen_unseen")
            if ("unseen" in fl) == ("\\seen" in fl) and "unseen" in fl:
                self.V("C04", "seen_and_unseen_together", session=sess.sid, uid=uid, flags=sorted(fl))
        # content identity -> ledger
        body = None
        for k, v in items.items():
            if k.startswith("BODY[") or k in ("RFC822", "RFC822.HEADER", "RFC822.TEXT"):
                if isinstance(v, (Lit, QStr)):
                    body = bytes(v) if isinstance(v, Lit) else v.encode("latin-1")
                    tok = corpus.tok_of(body)
                    if tok is not None and uid is not None and box is not None:
                        self.ledger_bind(box, uid, tok, sess.sid, seq=n)
                    break

    def ledger_bind(self, box, uid, tok, sid, seq=None):
        self.C("c02_ledger")
        cl = box.claims.get(uid)
        if cl is not None:
            # holds under every schedule: the UID an APPENDUID/COPYUID reported is the UID of that message
            self.C("c02_reported_uid_checked")
            if cl[0] != tok:
                del box.claims[uid]
                self.V("C02", "reported_uid_names_other_message", mailbox=box.name, uid=uid, reported_by=cl[1], reported_tok=cl[0], holds_tok=tok, session=sid)
        old = box.ledger.get(uid)
        if old is None:
            box.ledger[uid] = tok
            if uid > box.max_uid:
                box.max_uid = uid
            return
        if old != tok:
            m = box.by_uid(uid)
            if m is not None and m.tok == old and not box.uncertain:
                self.V("C03", "uid_content_changed", mailbox=box.name, uid=uid, was=old, now=tok, session=sid)
            else:
                self.V("C02", "uid_reused", mailbox=box.name, uvv=box.uvv, uid=uid, was=old, now=tok, session=sid)
            box.ledger[uid] = tok

    # ----------------------------------------------------------------- probes
    async def probe_box(self, box, why="", sess=None):
        """Observer reads a mailbox: EXAMINE + UID FETCH 1:* (...) + UNSELECT."""
        o = sess or self.obs
        if o.lost:
            return None
        name = "INBOX" if box.name == "inbox" else box.name
        r = await o.command(f"EXAMINE {quote(name)}")
        self.C("probe_examine")
        if not r.ok:
            return {"ok": False, "res": r}
        mo = self.model.sessions[o.sid]
        mo.selected = box
        out = {"ok": True, "msgs": [], "res": r}
        ex = [u.num for u in r.untagged if u.kind == "EXISTS"]
        out["exists"] = ex[-1] if ex else None
        c = code_of(r, "UIDVALIDITY")
        out["uvv"] = int(c[0]) if c else None
        c = code_of(r, "UIDNEXT")
        out["uidnext"] = int(c[0]) if c else None
        self.check_uid_codes(box, out["uvv"], out["uidnext"], "EXAMINE")
        if out["exists"]:
            f = await o.command("UID FETCH 1:* (UID FLAGS INTERNALDATE BODY.PEEK[])")
            if f.ok:
                for u in f.untagged:
                    if u.kind != "FETCH":
                        continue
                    try:
                        it = fetch_items(u)
                    except Exception:
                        continue
                    if "UID" not in it or "BODY[]" not in it:
                        continue
                    body = bytes(it["BODY[]"]) if isinstance(it["BODY[]"], (Lit,)) else str(it["BODY[]"]).encode("latin-1")
                    out["msgs"].append(
                        {
                            "seq": u.num,
                            "uid": int(it["UID"]),
                            "flags": norm_flags(it.get("FLAGS", [])),
                            "rawflags": [str(x) for x in it.get("FLAGS", [])],
                            "date": parse_internaldate(str(it.get("INTERNALDATE", ""))),
                            "body": body,
                            "tok": corpus.tok_of(body),
                        }
                    )
                # C05: a session that opened the mailbox with EXAMINE never changes its messages or
                # flags - reading the flags must not have taken \\Recent away (sequential mode: nobody
                # else is running)
                rec = sorted(m["uid"] for m in out["msgs"] if "\\recent" in {canon_flag(x) for x in m["rawflags"]})
                if rec and self.sequential and sess is None:
                    self.C("c05_examine_keeps_recent")
                    f2 = await o.command("UID FETCH 1:* (UID FLAGS)")
                    rec2 = set()
                    if f2.ok:
                        for u in f2.untagged:
                            if u.kind != "FETCH":
                                continue
                            try:
                                it = fetch_items(u)
                            except Exception:
                                continue
                            if "UID" in it and "\\recent" in {canon_flag(x) for x in it.get("FLAGS", [])}:
                                rec2.add(int(it["UID"]))
                        lost = [u_ for u_ in rec if u_ not in rec2]
                        if lost:
                            self.V("C05", "examine_fetch_cleared_recent", mailbox=box.name, uids=lost, why=why)
            else:
                out["fetch_failed"] = f.brief()
        await o.command("UNSELECT")
        mo.selected = None
        mo.know = {}
        return out

    def check_uid_codes(self, box, uvv, uidnext, where):
        """C02 clauses on UIDVALIDITY / UIDNEXT wherever they are revealed."""
        if self.prog.get("ns_quiescent"):
            return  # namespace commands race each other: the model's boxes are not the server's mailboxes
        if uvv is not None:
            self.C("c02_uidvalidity")
            if box.uvv is None:
                prev = self.model.name_uvv_max.get(box.name)
                # (the rule is about a name that is deleted and created again: a mailbox that got the name through
                # RENAME keeps the UIDVALIDITY it had - the pair rule below covers it)
                if prev is not None and uvv <= prev and not box.renamed_in:
                    self.V("C02", "uidvalidity_not_increased", mailbox=box.name, uvv=uvv, previous_max=prev, where=where)
                box.uvv = uvv
                self.model.name_uvv_max[box.name] = max(prev or 0, uvv)
            elif box.uvv != uvv:
                self.V("C02", "uidvalidity_changed", mailbox=box.name, was=box.uvv, now=uvv, where=where)
                box.uvv = uvv
            # a (mailbox name, UIDVALIDITY) pair never identifies two different incarnations - also not when
            # mailboxes that happen to have the same UIDVALIDITY trade names through RENAME
            inc = (id(box), len(box.uvv_history))
            owner = self.model.pair_owner.setdefault((box.name, uvv), inc)
            if owner != inc:
                self.C("c02_pair_owner")
                self.V("C02", "name_uidvalidity_pair_reused", mailbox=box.name, uvv=uvv, where=where)
                self.model.pair_owner[(box.name, uvv)] = inc
        if uidnext is not None:
            self.C("c02_uidnext")
            if uidnext <= box.max_uid:
                self.V("C02", "uidnext_low", mailbox=box.name, uidnext=uidnext, max_uid=box.max_uid, where=where)
            if uidnext < box.uidnext_told:
                self.V("C02", "uidnext_decreased", mailbox=box.name, uidnext=uidnext, was=box.uidnext_told, where=where)
            box.uidnext_told = max(box.uidnext_told, uidnext)

    def read_mh_sequences(self, box):
        """Raw parse of <folder>/.mh_sequences (stdlib get_sequences() hides
        keys whose message file is gone, which is exactly what must be seen)."""
        path = os.path.join(self.maildir, box.name, ".mh_sequences")
        out = {}
        try:
            with open(path, "r", encoding="latin-1") as f:
                for line in f:
                    line = line.strip()
                    if not line:
                        continue
                    name, sep, spec = line.partition(":")
                    if not sep:
                        return {"__error__": f"no colon in line {line[:60]!r}"}
                    keys = set()
                    for part in spec.split():
                        a, dash, b = part.partition("-")
                        if dash:
                            keys.update(range(int(a), int(b) + 1))
                        else:
                            keys.add(int(a))
                    out[name.strip()] = sorted(keys)
        except FileNotFoundError:
            return {}
        except Exception as e:
            return {"__error__": repr(e)}
        return out

    def live_keys(self, box):
        path = os.path.join(self.maildir, box.name)
        try:
            # (an all-digit directory is a sub-mailbox such as Archive/2024, not a message)
            return sorted(int(x) for x in os.listdir(path) if x.isdigit() and not os.path.isdir(os.path.join(path, x)))
        except OSError:
            return []

    async def compare_box(self, box, why="", initial=False):
        """Observer probe of one mailbox compared with the model."""
        if box.noselect or getattr(self, "shutting_down", False):
            return
        p = await self.probe_box(box, why)
        if p is None:
            return
        if not p["ok"]:
            self.C("c11_selectable")
            self.V("C17", "mailbox_unselectable", mailbox=box.name, reply=p["res"].brief(), why=why)
            return
        got = p["msgs"]
        if box.maybe:
            have = {m.tok for m in box.msgs}
            for i, g in enumerate(got):
                mm = box.maybe.get(g["tok"])
                if mm is not None and g["tok"] not in have:
                    del box.maybe[g["tok"]]
                    mm.flags = g["flags"]  # whatever happened to it meanwhile
                    mm.amb = mm.mh_amb = True
                    box.msgs.insert(min(i, len(box.msgs)), mm)
        exp = box.msgs
        self.C("probe_compare")
        self.ctx.state_hashes.add(hashlib.sha1(repr([(m.tok, sorted(m.flags)) for m in exp]).encode()).hexdigest()[:12])
        # seq <-> uid one-to-one, ascending
        seqs = [g["seq"] for g in got]
        uids = [g["uid"] for g in got]
        self.C("c03_seq_uid")
        if seqs != list(range(1, len(got) + 1)) or (p["exists"] is not None and p["exists"] != len(got) and "fetch_failed" not in p):
            self.V("C03", "seq_uid_mismatch", mailbox=box.name, seqs=seqs, exists=p["exists"], why=why)
        if any(b <= a for a, b in zip(uids, uids[1:])):
            self.V("C02", "uid_not_ascending", mailbox=box.name, uids=uids, why=why)
        if p.get("uidnext") is not None and uids and p["uidnext"] <= max(uids):
            self.V("C02", "uidnext_low", mailbox=box.name, uidnext=p["uidnext"], max_uid=max(uids), where="probe")
        # ledger + content stability
        for g in got:
            if g["tok"] is not None:
                self.ledger_bind(box, g["uid"], g["tok"], "obs")
                ref = self.refbody.get((box.name, box.uvv, g["uid"]))
                self.C("c03_content")
                if ref is None:
                    self.refbody[(box.name, box.uvv, g["uid"])] = (g["body"], g["date"])
                else:
                    if ref[0] != g["body"]:
                        self.V("C03", "uid_content_changed", mailbox=box.name, uid=g["uid"], why=why, bytes_differ=True)
                    if ref[1] != g["date"]:
                        self.V("C03", "uid_date_changed", mailbox=box.name, uid=g["uid"], was=ref[1], now=g["date"], why=why)
        if box.uncertain:
            self.adopt(box, got)
            return
        # A delivery whose second equals the folder's current mtime second may still be
        # invisible: asimap compares mtimes with one second granularity and may have
        # recorded that very second (through a write of its own) before the file
        # existed.  C13 conditions on the mtime having advanced, so such trailing,
        # never-observed deliveries are allowed to be missing (they stay expected).
        hidden = []
        if len(got) < len(exp):
            try:
                path = os.path.join(self.maildir, box.name)
                fm = int(max(os.stat(path).st_mtime, os.stat(os.path.join(path, ".mh_sequences")).st_mtime))
            except OSError:
                fm = None
            while exp and len(got) < len(exp) and exp[-1].uid is None and exp[-1].born is not None and fm is not None and int(exp[-1].date) >= fm:
                hidden.insert(0, exp[-1])
                exp = exp[:-1]
            if hidden:
                self.ctx.probe("same_second_delivery_not_yet_visible", len(hidden))
                for m in hidden:
                    # while asimap does not know the message, a flag-changing command rewrites
                    # .mh_sequences from what it knows: the `unseen` mark may be gone by the
                    # time the message is noticed (outside C13's mtime-advanced condition)
                    m.amb = m.mh_amb = True
        # match model list against observed list
        self.C("c05_conservation")
        ok = True
        if len(got) != len(exp):
            ok = False
        else:
            for m, g in zip(exp, got):
                if m.uid is not None and m.uid != g["uid"]:
                    ok = False
                    break
                if m.tok != g["tok"]:
                    ok = False
                    break
        if not ok:
            etoks = [m.tok for m in exp]
            gtoks = [g["tok"] for g in got]
            missing = [t for t in etoks if etoks.count(t) > gtoks.count(t)]
            extra = [t for t in gtoks if gtoks.count(t) > etoks.count(t)]
            if missing:
                self.V("C05", "message_lost", mailbox=box.name, missing=sorted(set(missing)), why=why, expected=etoks, got=gtoks)
            if extra:
                self.V("C05", "message_unexpected", mailbox=box.name, extra=sorted(set(extra)), why=why, expected=etoks, got=gtoks)
            if not missing and not extra:
                self.V("C03", "order_or_uid_changed", mailbox=box.name, why=why, expected=[(m.uid, m.tok) for m in exp], got=[(g["uid"], g["tok"]) for g in got])
            self.adopt(box, got)
            return
        for m, g in zip(exp, got):
            if m.uid is None:
                m.uid = g["uid"]
                self.C("c13_fresh_uid")
            self.C("c04_flags")
            if m.amb:
                m.amb = False
                if (m.flags ^ g["flags"]) == {"\\seen"}:
                    # asimap looked between the agent's two steps: legitimate
                    self.ctx.probe("split_delivery_observed_midway")
                    m.flags = g["flags"]
                    # what sessions were told (or worked out from their own silent stores) on the ambiguous base
                    for ms2 in self.model.sessions.values():
                        if ms2.selected is not box:
                            continue  # (UIDs are per mailbox)
                        k2 = ms2.know.get(g["uid"])
                        if k2 is not None and (k2 ^ m.flags) == {"\\seen"}:
                            ms2.know[g["uid"]] = m.flags
            if m.flags != g["flags"]:
                self.V(
                    "C04", "flags_diverge", mailbox=box.name, uid=g["uid"], tok=m.tok,
                    expected=sorted(m.flags), got=sorted(g["flags"]), why=why,
                )
                m.flags = g["flags"]
            rf = {canon_flag(x) for x in g["rawflags"]}
            # C04: \Recent can never be set by a client - once a message has been seen without it
            # (by the observer's own FETCH, never from a queued notification) it stays without
            self.C("c04_recent_monotonic")
            if "\\recent" in rf:
                if g["uid"] in box.nonrecent:
                    box.nonrecent.discard(g["uid"])
                    self.V("C04", "recent_set_again", mailbox=box.name, uid=g["uid"], tok=m.tok, flags=sorted(rf), why=why)
            else:
                box.nonrecent.add(g["uid"])
            if ("unseen" in rf) == ("\\seen" in rf):
                self.C("c04_seen_unseen")
                if "unseen" in rf:
                    self.V("C04", "seen_and_unseen_together", mailbox=box.name, uid=g["uid"], flags=sorted(rf))
            if m.date is not None and g["date"] is not None:
                self.C("c05_date")
                if m.date != g["date"]:
                    self.V("C05", "date_differs", mailbox=box.name, uid=g["uid"], tok=m.tok, expected=m.date, got=g["date"], why=why)
                    m.date = g["date"]
        if uids:
            box.max_uid = max(box.max_uid, max(uids))
        self.compare_mh_sequences(box, why)

    def adopt(self, box, got):
        # never-observed deliveries that are not (yet) listed: the model no longer knows whether
        # the server has noticed them (and perhaps moved or expunged them) - they may turn up
        seen = {g["tok"] for g in got}
        for m in box.msgs:
            if m.uid is None and m.born is not None and m.tok not in seen:
                box.maybe[m.tok] = m
        box.msgs = [MMsg(g["uid"], g["tok"], g["flags"], g["date"]) for g in got]
        box.uncertain = False

    def compare_mh_sequences(self, box, why=""):
        """C13 second half / C04(d): .mh_sequences as an MH tool reads it."""
        seqs = self.read_mh_sequences(box)
        if "__error__" in seqs:
            self.V("C13", "mh_sequences_unreadable", mailbox=box.name, error=seqs["__error__"], why=why)
            return
        keys = self.live_keys(box)
        live = set(keys)
        self.C("c13_stale_key")
        stale = {n: sorted(set(v) - live) for n, v in seqs.items() if set(v) - live}
        if stale:
            self.V("C13", "mh_sequences_stale_key", mailbox=box.name, stale=stale, live=keys, why=why)
        if len(keys) != len(box.msgs):
            return
        self.C("c13_flags")
        for key, m in zip(keys, box.msgs):
            if m.mh_amb or m.uid is None:
                continue
            inseq = {n for n, v in seqs.items() if key in v}
            fl = set()
            if "unseen" not in inseq:
                fl.add("\\seen")
            for n in inseq:
                if n in ("unseen", "Seen", "Recent"):
                    continue
                rev = {v: k for k, v in FLAG_TO_SEQ.items()}
                fl.add(rev.get(n, n))
            want = m.flags
            if "Seen" in inseq and "unseen" in inseq and self.split_delivered:
                # only an MH agent's second step (adding `unseen` after the server had already looked
                # at the file) can put a message into both: the agent's doing, seen-ness not compared
                fl.discard("\\seen")
                want = want - {"\\seen"}
            if frozenset(fl) != want:
                self.V(
                    "C13", "mh_sequences_diverge", mailbox=box.name, key=key, uid=m.uid,
                    expected=sorted(m.flags), mh=sorted(inseq), why=why,
                )
                break

    async def probe_all(self, initial=False, final=False, only=None):
        names = sorted(self.model.boxes)
        for n in names:
            box = self.model.boxes.get(n)
            if box is None or box.noselect:
                continue
            if only is not None and n not in only:
                continue
            await self.compare_box(box, why="initial" if initial else ("final" if final else "probe"), initial=initial)

    async def after_mutation(self, boxes, why):
        if not self.compare or getattr(self, "shutting_down", False):
            return
        if self.probe_p < 1.0:
            # sparse probing: the read-only observer is itself a client of the server (its EXAMINE
            # makes the mailbox resync, its FETCH produces notifications) and has masked defects
            # (F49/F50). Here it looks only now and then; the model carries on regardless and the
            # final probe still compares everything.
            if self.probe_rng.random() >= self.probe_p:
                return
            why = why.replace("-refused", "").replace("-readonly", "")  # no per-op blame across skipped probes
        seen = set()
        if why.endswith("-refused"):
            self.blame = ("C05", "refused_command_had_effect")
            self.C("c05_refused_noeffect")
        elif why.endswith("-readonly"):
            self.blame = ("C05", "readonly_session_mutated")
            self.C("c05_readonly")
        try:
            for b in boxes:
                if b is None or b.name in seen or b.name not in self.model.boxes:
                    continue
                seen.add(b.name)
                await self.compare_box(b, why=why)
        finally:
            self.blame = None

    def others_changed(self, box, actor_sid):
        for sid, ms in self.model.sessions.items():
            if sid != actor_sid and ms.selected is box:
                ms.maybe_pending = True

    # --------------------------------------------------------- set resolution
    async def ensure_known(self, sess, ms):
        """Under sparse probing a delivery may not have been looked at by the observer yet while a session has already
        been told its UID: before a command of that session is resolved against the model, the observer looks (this is
        the one place where the model asks the server - through the ordinary comparison - rather than guess from a
        view whose cells may be stale)."""
        box = ms.selected
        if not self.compare or box is None or box.uncertain or sess.view is None:
            return
        if any(m.uid is None for m in box.msgs) and any(c is not None for c, m in zip(sess.view, box.msgs) if m.uid is None):
            self.ctx.probe("bind_before_resolve")
            await self.compare_box(box, why="bind")

    def resolve_set(self, sess, ms, op):
        """-> (set text, list of target uids | None if unknown, valid: bool)"""
        st = op.get("set") or {"all": True}
        uidcmd = bool(op.get("uid"))
        view = sess.view or []
        box = ms.selected
        if "raw" in st:
            return st["raw"], None, None
        if "all" in st:
            if uidcmd:
                return "1:*", [m.uid for m in box.msgs] if box else [], True
            return "1:*", list(view), len(view) > 0
        if "pos" in st:
            pos = [p for p in st["pos"]]
            if uidcmd:
                # UIDs of those view cells
                uids = []
                for p in pos:
                    if 1 <= p <= len(view) and view[p - 1] is not None:
                        uids.append(view[p - 1])
                    else:
                        uids.append(900000 + p)  # non-existent uid
                txt = ",".join(str(u) for u in uids) or "1"
                return txt, [u for u in uids if u < 900000], True
            nums = pos
            txt = ",".join(str(p) for p in nums) or "1"
            valid = all(1 <= p <= len(view) for p in nums) and bool(nums)
            if not valid:
                return txt, [], False
            return txt, [view[p - 1] for p in nums], True
        if "uids" in st:
            txt = ",".join(str(u) for u in st["uids"]) or "1"
            return txt, list(st["uids"]), True
        if "tok" in st:
            uids = []
            for t in st["tok"]:
                for m in (box.msgs if box else []):
                    if m.tok == t and m.uid is not None:
                        uids.append(m.uid)
            if uidcmd:
                return ",".join(map(str, uids)) or "999999", uids, True
            nums = [view.index(u) + 1 for u in uids if u in view]
            return ",".join(map(str, nums)) or "1", [view[n - 1] for n in nums], bool(nums)
        raise ValueError(st)

    def min_visible(self, box):
        """Number of leading model messages that must be visible (trailing never-observed
        deliveries of the folder's current mtime second may not be yet)."""
        n = len(box.msgs)
        try:
            path = os.path.join(self.maildir, box.name)
            fm = int(max(os.stat(path).st_mtime, os.stat(os.path.join(path, ".mh_sequences")).st_mtime))
        except OSError:
            return n
        while n > 0 and box.msgs[n - 1].uid is None and box.msgs[n - 1].born is not None and int(box.msgs[n - 1].date) >= fm:
            n -= 1
        return n

    def view_synced_list(self, view, box):
        if box is None or len(view) != len(box.msgs):
            return False
        return all(c is None or m.uid is None or c == m.uid for c, m in zip(view, box.msgs))

    def view_synced(self, sess, box):
        """Does the session's replayed view equal the model's message list?"""
        if sess.view is None or box is None:
            return False
        if len(sess.view) != len(box.msgs):
            return False
        for cell, m in zip(sess.view, box.msgs):
            if cell is not None and m.uid is not None and cell != m.uid:
                return False
        return True

    # ------------------------------------------------------------------- ops
    def session_gone(self, sess, ms, r, cmd):
        """Book-keeping + C06 clause when a command was not answered."""
        if r.status is not None:
            return False
        self.C("c06_answered")
        if r.closed or sess.lost:
            ms.dead = True
            if ms.selected is not None:
                ms.selected = None
            if not sess.bye and not getattr(self, "shutting_down", False):
                self.V("C06", "session_dead_without_bye", session=sess.sid, cmd=cmd[:80])
            return True
        self.V("C06", "no_tagged_reply", session=sess.sid, cmd=cmd[:80], waited=round(self.loop.time() - r.sent_at, 1))
        return True

    def check_prompt(self, sess, r, cmd):
        if r.status is None or r.latency is None:
            return
        self.C("c06_prompt")
        if not self.prog.get("liveness", True):
            return
        if r.latency >= PROMPT_BOUND or "Command timed out" in (r.text or ""):
            self.V(
                "C06", "answered_by_watchdog", session=sess.sid, cmd=cmd[:80], latency=round(r.latency, 2),
                text=(r.text or "")[:80], verb=r.verb, uid=r.uid,
            )
            if "C10" in self.props:
                # a command that only the watchdog answers was starved
                self.V("C10", "starvation", session=sess.sid, cmd=cmd[:80], latency=round(r.latency, 2), waitfor=self.waitfor_picture())

    async def run_cmd(self, sess, ms, line, **kw):
        if sess.lost:
            r = await sess.command(line, **kw)
            ms.dead = True
            return r
        sess._unresolved_flags = []
        sess._direct_uids = set()
        r = await sess.command(line, **kw)
        pend, sess._unresolved_flags = getattr(sess, "_unresolved_flags", []), []
        direct_, sess._direct_uids = sess._direct_uids, None
        if pend and r.status is not None and not any(u.kind == "EXPUNGE" for u in r.untagged):
            box_ = ms.selected
            if box_ is not None and not box_.uncertain and sess.view is not None and self.view_synced(sess, box_):
                for n_, fl_ in pend:
                    if 1 <= n_ <= len(box_.msgs) and box_.msgs[n_ - 1].uid is not None and box_.msgs[n_ - 1].uid not in direct_:
                        ms.know[box_.msgs[n_ - 1].uid] = fl_
        text = line if isinstance(line, str) else line[:100].decode("latin-1")
        self.session_gone(sess, ms, r, text)
        self.check_prompt(sess, r, text)
        if r.status == "BAD" and "Unhandled exception" in (r.text or "") and self.prog.get("mode") == "concurrent" and "C10" in self.props and self.prog.get("family") not in ("random", "rename-race"):
            # (not in the long random workloads: there CREATE/DELETE/RENAME of several sessions race each other, which is
            # open finding F90)
            # C10: the server's catch-all for an exception that escaped a command is the response of no sequential order
            self.C("c10_no_internal_error")
            self.V("C10", "unhandled_exception_response", session=sess.sid, cmd=text[:60], reply=(r.text or "")[:120])
        if self.compare and r.status == "NO" and "pending expunge" in (r.text or "").lower():
            # a command by message number is refused "because EXPUNGEs are pending" only when some are: here the
            # session's view IS the message list (every cell known on both sides), so nothing can be pending
            box_ = ms.selected
            if box_ is not None and not box_.uncertain and sess.view is not None and len(sess.view) == len(box_.msgs) and all(c is not None for c in sess.view) \
                    and all(m.uid is not None for m in box_.msgs) and list(sess.view) == [m.uid for m in box_.msgs]:
                self.C("c04_refusal_has_reason")
                self.V("C04", "refused_without_pending_expunge", session=sess.sid, cmd=text[:60], reply=r.brief())
        if sess.bye or sess.lost:
            ms.dead = True
            ms.selected = None
        self.results.append((self.op_index, r.brief()))
        return r

    async def op_select(self, op):
        sess, ms = self.sess(op)
        if sess is None or ms.dead:
            return
        name = op["mbox"]
        verb = "EXAMINE" if op.get("examine") else "SELECT"
        box = self.model.box(name)
        ms.selected = None
        ms.know = {}
        ms.maybe_pending = False
        r = await self.run_cmd(sess, ms, f"{verb} {spell(name, op)}")
        if r.status is None or ms.dead:
            return
        if box is None or box.noselect:
            if self.compare:
                self.C("c17_select_missing")
                if r.ok:
                    self.V("C17", "deleted_mailbox_selectable", mailbox=name, noselect=bool(box and box.noselect))
            elif r.ok:
                ms.selected = box
            return
        if not r.ok:
            if self.compare:
                self.C("c17_selectable")
                self.V("C17", "mailbox_unselectable", mailbox=name, reply=r.brief())
            return
        ms.selected = box
        ms.readonly = bool(op.get("examine"))
        c = code_of(r, "UIDVALIDITY")
        uvv = int(c[0]) if c else None
        c = code_of(r, "UIDNEXT")
        un = int(c[0]) if c else None
        self.check_uid_codes(box, uvv, un, verb)
        ms.sel_uvv = (norm_mbox_name(name), uvv) if uvv is not None else None  # identity of the incarnation selected
        ro = "READ-ONLY" in (str(r.code[0]).upper() if r.code else "")
        self.C("c05_readonly_code")
        if bool(op.get("examine")) != ro:
            self.V("C05", "examine_not_read_only", mailbox=name, code=str(r.code))
        if op.get("learn", True) and sess.view:
            f = await self.run_cmd(sess, ms, "UID FETCH 1:* (UID)")
            if ms.sel_uvv is not None and self.uidexp_allowed.get(ms.sel_uvv, ()) is not None:
                self.seen_uids.setdefault(ms.sel_uvv, set()).update(c for c in (sess.view or []) if c is not None)
        if self.compare and not box.uncertain:
            self.C("c01_select_exists")
            if not (self.min_visible(box) <= len(sess.view or []) <= len(box.msgs)):
                self.V("C01", "select_count_wrong", session=sess.sid, mailbox=name, view=len(sess.view or []), model=len(box.msgs))
            else:
                self.learn_uids(sess, box)

    def learn_uids(self, sess, box, fresh_only=False):
        held = {x.uid for x in box.msgs if x.uid is not None}
        if box.maybe or any(c is not None and m.uid is not None and c != m.uid for c, m in zip(sess.view or [], box.msgs)):
            # the UIDs both sides know do not line up (or the model has lost track of a delivery that "may turn up"):
            # positions mean nothing then - the observer binds instead
            return
        for cell, m in zip(sess.view or [], box.msgs):
            if cell is not None and m.uid is None:
                if cell in held:
                    return  # (that UID is another message's: view and model are not aligned - leave it to the observer)
                if fresh_only:
                    # (a stale cell of a session with EXPUNGEs pending holds the UID of a message that is gone: the
                    # ledger knows that UID with another message)
                    t_ = box.ledger.get(cell)
                    if (t_ is not None and t_ != m.tok) or any(x.uid is not None and x.uid >= cell for x in box.msgs):
                        return
                m.uid = cell
                box.max_uid = max(box.max_uid, cell)

    async def op_unselect(self, op):
        sess, ms = self.sess(op)
        if sess is None or ms.dead:
            return
        r = await self.run_cmd(sess, ms, "UNSELECT")
        if r.ok:
            ms.selected = None

    async def op_learn(self, op):
        sess, ms = self.sess(op)
        if sess is None or ms.dead or ms.selected is None:
            return
        await self.run_cmd(sess, ms, "UID FETCH 1:* (UID)")
        if self.compare and self.view_synced(sess, ms.selected):
            self.learn_uids(sess, ms.selected)

    async def op_append(self, op):
        sess, ms = self.sess(op)
        if sess is None or ms.dead:
            return
        name = op["mbox"]
        box = self.model.box(name)
        tok = op["tok"]
        data = corpus.build(op.get("shape", "plain"), tok)
        flags = op.get("flags", [])
        date = int(op.get("date", 1_600_000_000 + tok))
        fl = "(" + " ".join(flags) + ") " if flags or op.get("force_flags") else ""
        head = f'APPEND {spell(name, op)} {fl}"{fmt_internaldate(date)}" '.encode("latin-1")
        lit = b"{%d%s}\r\n" % (len(data), b"+" if op.get("nonsync") else b"")
        r = await self.run_cmd(sess, ms, head + lit + data, verb="APPEND")
        if r.status is None:
            return
        if self.prog.get("ns_quiescent"):
            return
        if box is None or box.noselect:
            self.C("c05_append_missing")
            if r.ok:
                self.V("C05", "append_to_missing_mailbox_ok", mailbox=name)
            elif box is not None:
                self.placeholder_untouched(box, f"APPEND {name}", r)
            return
        if not r.ok:
            if "\\recent" in [canon_flag(f) for f in flags]:
                return
            self.C("c05_append_refused")
            await self.after_mutation([box], "append-refused")
            return
        self.ctx.nontrivial = True
        if self.compare and self.mode_sequential():
            # C05: APPEND adds the message with the same content - the octets of the literal are the octets of the
            # new message file (what COPY and MOVE do with the files they copy)
            self.C("c05_append_octets")
            keys = self.live_keys(box)
            if keys:
                try:
                    with open(os.path.join(self.maildir, box.name, str(keys[-1])), "rb") as fh:
                        stored = fh.read()
                except OSError:
                    stored = None
                if stored is not None and stored != data and corpus.tok_of(stored) == tok:
                    k = next((i for i in range(min(len(stored), len(data))) if stored[i] != data[i]), min(len(stored), len(data)))
                    self.V("C05", "append_content_differs", mailbox=box.name, tok=tok, shape=op.get("shape", "plain"), sent=len(data), stored=len(stored),
                           first_difference=k, sent_there=repr(data[k:k + 24]), stored_there=repr(stored[k:k + 24]))
        c = code_of(r, "APPENDUID")
        m = MMsg(None, tok, norm_flags(flags), date)
        self.C("c02_appenduid")
        if c:
            uvv, uid = int(c[0]), int(c[1])
            self.check_uid_codes(box, uvv, None, "APPENDUID")
            if uid <= box.max_uid:
                self.V("C02", "uid_reused", mailbox=box.name, uid=uid, max_uid=box.max_uid, where="APPENDUID")
            m.uid = uid
            box.max_uid = max(box.max_uid, uid)
            if uvv == box.uvv or box.uvv is None:
                box.claims[uid] = (tok, "APPENDUID")
        else:
            self.V("C02", "appenduid_missing", mailbox=box.name, reply=r.brief())
        box.msgs.append(m)
        self.others_changed(box, sess.sid if ms.selected is box else None)
        if ms.selected is box:
            pass
        await self.after_mutation([box], "append")

    def mode_sequential(self):
        return self.prog.get("mode", "sequential") == "sequential"

    def placeholder_untouched(self, box, cmd, r):
        """C05: a command refused because its destination is a \\Noselect placeholder wrote nothing into it."""
        self.C("c05_placeholder_untouched")
        path = os.path.join(self.maildir, box.name)
        keys = [k for k in self.live_keys(box) if (path, str(k)) not in self.delivered]  # (not what the MH agent put there)
        if keys:
            self.V("C05", "refused_command_had_effect", cmd=cmd, mailbox=box.name, files=keys[:5], reply=r.brief())

    def flags_for_store(self, cur, how, flags):
        f = norm_flags(flags)
        if how == "+":
            return cur | f
        if how == "-":
            return cur - f
        return f

    async def op_store(self, op):
        sess, ms = self.sess(op)
        if sess is None or ms.dead:
            return
        box = ms.selected
        how = op.get("how", "+")
        flags = op.get("flags", ["\\Seen"])
        item = {"+": "+FLAGS", "-": "-FLAGS", "=": "FLAGS"}[how] + (".SILENT" if op.get("silent") else "")
        self._noparen = bool(op.get("noparen")) and len(flags) >= 1
        if box is None:
            r = await self.run_cmd(sess, ms, f"{'UID ' if op.get('uid') else ''}STORE 1 {item} ({' '.join(flags)})")
            self.C("c06_state_refusal")
            return
        await self.ensure_known(sess, ms)
        txt, uids, valid = self.resolve_set(sess, ms, op)
        synced = self.view_synced(sess, box)
        pend_before = ms.maybe_pending
        vlen = list(sess.view or [])  # (the whole view: an EXPUNGE plus an EXISTS leave the length unchanged)
        tag = None
        if self.tag_stores and how in "+=" and getattr(ms, "sel_uvv", None) is not None:
            # a keyword no other command uses: wherever it turns up at the end is where this STORE landed
            tag = f"zq{self.op_index}"
            flags = list(flags) + [tag]
            st = op.get("set") or {"all": True}
            asked = None
            if valid is True and uids is not None and "all" not in st and "raw" not in st and all(u is not None for u in uids):
                asked = set(uids)
            # copies made later (even back into this mailbox) carry the keyword under UIDs above every UID known now
            floor = max((c for c in (sess.view or []) if c is not None), default=0)
            self.tags[tag] = {"uvv": ms.sel_uvv, "asked": asked, "floor": floor, "session": sess.sid, "cmd": f"{'UID ' if op.get('uid') else ''}STORE {txt} {item}"}
        # (store-att-flags = ... (flag-list / (flag *(SP flag))): the parentheses are optional)
        fl_txt = " ".join(flags) if self._noparen else "(" + " ".join(flags) + ")"
        r = await self.run_cmd(sess, ms, f"{'UID ' if op.get('uid') else ''}STORE {txt} {item} {fl_txt}")
        if r.status is None or ms.dead:
            return
        if ("*" in txt or valid is False) and (list(sess.view or []) != vlen or any(u.kind == "EXISTS" for u in r.untagged)):
            uids = None  # the set was evaluated after the mailbox grew during the command
            valid = None
        has_recent = "\\recent" in [canon_flag(f) for f in flags]
        if not self.compare or box.uncertain or uids is None:
            box.uncertain = box.uncertain or (r.ok and uids is None)
            ms.know = {}
            await self.after_mutation([box], "store")
            return
        if valid is False and not op.get("uid"):
            self.C("c05_refused_noeffect")
            if r.ok:
                self.V("C05", "out_of_range_accepted", cmd=f"STORE {txt}", view=len(sess.view or []))
            await self.after_mutation([box], "store-refused")
            return
        if not r.ok:
            # refused: nothing may change
            plain = all(re.fullmatch(r"\\(Seen|Answered|Flagged|Deleted|Draft)|kw[0-9]|\$Forwarded|NonJunk", f, re.I) for f in flags)
            if r.status == "NO" and plain and flags and not ms.readonly and uids and all(box.by_uid(u) is not None for u in uids if u is not None) \
                    and not ms.maybe_pending and "pending" not in (r.text or "").lower() and self.view_synced(sess, box):
                # C04: a STORE of system flags (in any case) and ordinary keywords on existing messages of a read-write
                # session with nothing pending has no reason to be refused
                self.C("c04_valid_store_accepted")
                self.V("C04", "valid_store_refused", cmd=f"STORE {txt} {item} {' '.join(flags)}", reply=r.brief())
            await self.after_mutation([box], "store-refused")
            return
        self.ctx.nontrivial = True
        if any(u is None for u in uids):
            box.uncertain = True
            ms.know = {}
            await self.after_mutation([box], "store")
            return
        if ms.readonly:
            self.C("c05_readonly")
            # a read-only session's STORE answered OK must not have changed anything
            await self.after_mutation([box], "store-readonly")
            return
        if has_recent:
            self.C("c04_recent")
            eff = [f for f in flags if canon_flag(f) != "\\recent"]
        else:
            eff = flags
        targets = []
        for u in uids:
            m = box.by_uid(u)
            if m is not None:
                targets.append(m)
        for m in targets:
            m.flags = self.flags_for_store(m.flags, how, eff)
            ms.know[m.uid] = m.flags  # the issuer knows (told, or SILENT = assumed)
        # response check (C04a)
        told = {}
        for u in r.untagged:
            if u.kind == "FETCH":
                try:
                    it = fetch_items(u)
                except Exception:
                    continue
                if "FLAGS" in it:
                    n = u.num
                    uid = int(it["UID"]) if "UID" in it else None
                    told[(n, uid)] = norm_flags(it["FLAGS"])
        if not pend_before:
            self.C("c04_store_response")
            if op.get("silent"):
                pass
            else:
                for m in targets:
                    hit = [f for (n, uid), f in told.items() if uid == m.uid or (uid is None and sess.view and 1 <= n <= len(sess.view) and sess.view[n - 1] == m.uid)]
                    if not hit:
                        self.V("C04", "store_response_missing", uid=m.uid, cmd=f"STORE {txt} {item}")
                    elif m.amb and (hit[-1] ^ m.flags) == {"\\seen"}:
                        # split delivery that the server looked at between the agent's two steps: it told this
                        # session which of the two legitimate values it has
                        self.ctx.probe("split_delivery_observed_midway")
                        m.amb = False
                        m.flags = hit[-1]
                        for ms2 in self.model.sessions.values():
                            if ms2.selected is not box:
                                continue  # (UIDs are per mailbox)
                            k2 = ms2.know.get(m.uid)
                            if k2 is not None and (k2 ^ m.flags) == {"\\seen"}:
                                ms2.know[m.uid] = m.flags
                    elif hit[-1] != m.flags:
                        self.V("C04", "store_response_wrong", uid=m.uid, told=sorted(hit[-1]), model=sorted(m.flags), cmd=f"STORE {txt} {item}")
        self.others_changed(box, sess.sid)
        await self.after_mutation([box], "store")

    async def op_fetch(self, op):
        sess, ms = self.sess(op)
        if sess is None or ms.dead:
            return
        box = ms.selected
        items = op.get("items", "(UID FLAGS)")
        if box is None:
            await self.run_cmd(sess, ms, f"{'UID ' if op.get('uid') else ''}FETCH 1 {items}")
            return
        await self.ensure_known(sess, ms)
        txt, uids, valid = self.resolve_set(sess, ms, op)
        vlen = list(sess.view or [])  # (the whole view: an EXPUNGE plus an EXISTS leave the length unchanged)
        pre_view = set(c for c in (sess.view or []) if c is not None)
        r = await self.run_cmd(sess, ms, f"{'UID ' if op.get('uid') else ''}FETCH {txt} {items}")
        if r.status is None or ms.dead:
            return
        self.check_uid_fetch_answer(sess, ms, box, op, txt, items, uids, valid, pre_view, r)
        if ("*" in txt or valid is False) and (list(sess.view or []) != vlen or any(u.kind == "EXISTS" for u in r.untagged)):
            uids = [None]
            valid = None
        peek = "PEEK" in items.upper() or not re.search(r"BODY\[|RFC822(?!\.SIZE|\.HEADER)", items.upper())
        if not self.compare or box.uncertain:
            if r.ok and not peek:
                box.uncertain = True
            await self.after_mutation([box], "fetch")
            return
        if not r.ok:
            await self.after_mutation([box], "fetch-refused")
            return
        # content returned for seq n must be the message the session's view binds to n
        for u in r.untagged:
            if u.kind != "FETCH":
                continue
            try:
                it = fetch_items(u)
            except Exception:
                continue
            n = u.num
            uid = int(it["UID"]) if "UID" in it else (sess.view[n - 1] if sess.view and 1 <= n <= len(sess.view) else None)
            m = box.by_uid(uid) if uid is not None else None
            for k, v in it.items():
                if (k.startswith("BODY[") or k.startswith("RFC822")) and isinstance(v, (Lit, QStr)) and m is not None:
                    b = bytes(v) if isinstance(v, Lit) else v.encode("latin-1")
                    t = corpus.tok_of(b)
                    self.C("c01_accepted_number")
                    if t is not None and t != m.tok:
                        self.V("C01", "seq_accepted_wrong_message", session=sess.sid, n=n, uid=uid, expected_tok=m.tok, got_tok=t)
        if not peek and uids:
            self.ctx.nontrivial = True
            if any(u_ is None for u_ in uids):
                box.uncertain = True
                await self.after_mutation([box], "fetch")
                return
            if ms.readonly:
                await self.after_mutation([box], "fetch-readonly")
                return
            for u_ in uids:
                m = box.by_uid(u_) if u_ is not None else None
                if m is not None:
                    m.flags = m.flags | {"\\seen"}
            self.others_changed(box, sess.sid)
        await self.after_mutation([box], "fetch")

    def check_uid_fetch_answer(self, sess, ms, box, op, txt, items, uids, valid, pre_view, r):
        """Holds under every schedule: a UID FETCH of an explicit set returns the requested
        data items only for messages of that set, and for every message of the set that
        the session knew and that is (still) there."""
        st = op.get("set") or {"all": True}
        if not op.get("uid") or not r.ok or valid is not True or uids is None or "all" in st or "raw" in st:
            return
        if not re.search(r"BODY|RFC822|INTERNALDATE|ENVELOPE", items.upper()):
            return  # FLAGS/UID-only answers cannot be told from unsolicited flag updates
        asked = set(u for u in uids if u is not None)
        self.C("c03_uid_fetch_answer")
        answered = set()
        for u in r.untagged:
            if u.kind != "FETCH":
                continue
            try:
                it = fetch_items(u)
            except Exception:
                continue
            if not any(k not in ("UID", "FLAGS") for k in it):
                continue
            if "UID" not in it:
                continue
            uid = int(it["UID"])
            if uid not in asked:
                self.V("C03", "uid_fetch_wrong_message", session=sess.sid, cmd=f"UID FETCH {txt} {items}", asked=sorted(asked), got=uid)
            else:
                answered.add(uid)
        for u in sorted((asked & pre_view) - answered):
            if self.compare:
                if not box.uncertain and box.by_uid(u) is not None:
                    self.V("C03", "uid_fetch_missing", session=sess.sid, cmd=f"UID FETCH {txt} {items}", uid=u, mailbox=box.name)
            elif getattr(ms, "sel_uvv", None) is not None:
                self.unanswered.append({"uvv": ms.sel_uvv, "uid": u, "session": sess.sid, "cmd": f"UID FETCH {txt} {items}"})

    @staticmethod
    def copyuid_of(r):
        """-> (uvv, [src uids]) of a COPYUID code in the tagged or an untagged OK, or None"""
        cands = [r.code] + [u.code for u in r.untagged if u.kind == "OK"]
        for c in cands:
            if c and str(c[0]).upper() == "COPYUID" and len(c) >= 3:
                try:
                    return int(str(c[1])), parse_uidset(str(c[2]))
                except Exception:
                    return None
        return None

    def disk_flags_at_quiescence(self, name, here):
        """C13 second half under concurrency: once every command has completed, .mh_sequences (as
        an MH tool reads it) shows the flags the IMAP side reports - whatever the interleaving was."""
        fake = MBox(name)
        seqs = self.read_mh_sequences(fake)
        if "__error__" in seqs:
            self.V("C13", "mh_sequences_unreadable", mailbox=name, error=seqs["__error__"], why="quiescence")
            return
        keys = self.live_keys(fake)
        self.C("c13_disk_flags_quiescence")
        live = set(keys)
        path = os.path.join(self.maildir, name)
        # (an MH agent marks its message `unseen` in a second step: if the server expunged the message in
        # between, that stale mark is the agent's doing)
        agent = {int(k_) for p_, k_ in self.delivered if p_ == path}
        stale = {}
        for n, v in seqs.items():
            gone = set(v) - live
            if n == "unseen":
                gone -= agent
            if gone:
                stale[n] = sorted(gone)
        if stale:
            self.V("C13", "mh_sequences_stale_key", mailbox=name, stale=stale, live=keys, why="quiescence")
        if len(keys) != len(here):
            return  # a delivery of this very second is not visible yet
        had_delivery = any(p_ == path for p_, _ in self.delivered)
        rev = {v: k for k, v in FLAG_TO_SEQ.items()}
        for key, uid in zip(keys, sorted(here)):
            imap = set(norm_flags(here[uid]))
            inseq = {n for n, v in seqs.items() if key in v}
            mh = set()
            if "unseen" not in inseq:
                mh.add("\\seen")
            for n in inseq:
                if n not in ("unseen", "Seen", "Recent"):
                    mh.add(canon_flag(rev.get(n, n)))
            if had_delivery:
                # an MH agent writes the file and the `unseen` mark in two steps: which of them the
                # server saw first is its own business
                imap.discard("\\seen")
                mh.discard("\\seen")
            if imap != mh:
                self.V("C13", "mh_sequences_diverge", mailbox=name, key=key, uid=uid, imap=sorted(imap), mh=sorted(inseq), why="quiescence", mode="concurrent")
                break

    async def check_hit_oracles(self):
        """End of a concurrent run: where did every tagged STORE land; are the messages a
        UID FETCH did not answer for still there?"""
        want_disk = bool(self.props & {"C13", "C04"})
        if not (self.tags or self.unanswered or self.uidexp_only or want_disk or self.seen_oracle) or self.obs is None or self.obs.lost:
            return
        r = await self.obs.command('LIST "" "*"')
        if not r.ok:
            return
        names = [n for n, attrs in self.parse_list(r) if "\\noselect" not in attrs]
        for name in names:
            e = await self.obs.command(f"EXAMINE {quote(name)}")
            if not e.ok:
                continue
            c = code_of(e, "UIDVALIDITY")
            uvv = (norm_mbox_name(name), int(c[0])) if c else None
            f = await self.obs.command("UID FETCH 1:* (UID FLAGS)")
            if self.seen_oracle and f.ok:
                # C13: nothing in this program touches \\Seen (no non-peek body fetch, no STORE of \\Seen): what an MH
                # agent delivered is still exactly as seen / unseen as the agent made it, whatever the interleaving
                g = await self.obs.command("UID FETCH 1:* (UID FLAGS BODY.PEEK[HEADER.FIELDS (X-Tok)])")
                if g.ok:
                    for u in g.untagged:
                        if u.kind != "FETCH":
                            continue
                        try:
                            it = fetch_items(u)
                        except Exception:
                            continue
                        body = None
                        for k_, v_ in it.items():
                            if k_.startswith("BODY[") and isinstance(v_, (Lit, QStr)):
                                body = bytes(v_) if isinstance(v_, Lit) else v_.encode("latin-1")
                        tok_ = corpus.tok_of(body) if body else None
                        if tok_ is None or tok_ not in self.delivered_seen:
                            continue
                        want = self.delivered_seen.get(tok_)
                        self.C("c13_delivered_seen_state")
                        fl_ = {canon_flag(x) for x in it.get("FLAGS", [])}
                        extra_ = fl_ - {"\\seen", "\\recent", "unseen"} if self.prog.get("seen_oracle") == "strict" else set()
                        if (want is not None and ("\\seen" in fl_) != want) or extra_:
                            self.V("C13", "delivered_flags_changed", mailbox=name, uid=int(it["UID"]) if "UID" in it else None, tok=tok_,
                                   delivered={True: "seen", False: "unseen", None: "either"}[want], now=sorted(fl_), inherited=sorted(extra_))
            await self.obs.command("UNSELECT")
            if not f.ok or uvv is None:
                continue
            here = {}
            for u in f.untagged:
                if u.kind != "FETCH":
                    continue
                try:
                    it = fetch_items(u)
                except Exception:
                    continue
                if "UID" in it:
                    here[int(it["UID"])] = [str(x) for x in it.get("FLAGS", [])]
            self.C("c03_hit_oracle_mailbox")
            for uid, fl in here.items():
                for x in fl:
                    rec = self.tags.get(x)
                    if rec is None or rec["uvv"] != uvv or rec["asked"] is None or uid > rec["floor"]:
                        continue
                    self.C("c03_tag_checked")
                    if uid not in rec["asked"]:
                        self.V("C03", "store_hit_wrong_message", session=rec["session"], cmd=rec["cmd"], asked=sorted(rec["asked"]), hit=uid, mailbox=name)
            if want_disk:
                self.disk_flags_at_quiescence(uvv[0], here)
            if self.uidexp_only and not self.other_removal and uvv in self.seen_uids:
                # nothing but UID EXPUNGE <explicit set> removed messages in this run: whatever is gone was named by one
                self.C("c05_uidexpunge_only_checked")
                gone = self.seen_uids[uvv] - set(here)
                bad = sorted(gone - (self.uidexp_allowed.get(uvv) or set()))
                if bad:
                    self.V("C05", "expunged_unaddressed", mailbox=name, removed=bad, named=sorted(self.uidexp_allowed.get(uvv) or set()))
            for rec in self.unanswered:
                if rec["uvv"] == uvv and rec["uid"] in here:
                    self.V("C03", "uid_fetch_missing", session=rec["session"], cmd=rec["cmd"], uid=rec["uid"], mailbox=name, mode="concurrent")

    async def op_alias_probe(self, op):
        """C04 over 'any syntactically valid keyword atom': a keyword whose name happens to be the
        MH sequence name of a system flag must not be that system flag."""
        sess, ms = self.sess(op)
        if sess is None or ms.dead or ms.selected is None or ms.readonly or not sess.view:
            return
        box = ms.selected
        n = min(max(1, int(op.get("pos", 1))), len(sess.view))
        kw = op["kw"]

        async def flags_of():
            r_ = await self.run_cmd(sess, ms, f"FETCH {n} (FLAGS)")
            if r_.status is None or not r_.ok:
                return None
            for u in r_.untagged:
                if u.kind == "FETCH" and u.num == n:
                    try:
                        it = fetch_items(u)
                    except Exception:
                        continue
                    if "FLAGS" in it:
                        return {canon_flag(x) for x in it["FLAGS"]} - {"\\recent"}
            return None

        before = await flags_of()
        if before is None or ms.dead:
            return
        r = await self.run_cmd(sess, ms, f"STORE {n} +FLAGS.SILENT ({kw})")
        if r.status is None or ms.dead:
            return
        after = await flags_of()
        box.uncertain = True
        ms.know = {}
        self.others_changed(box, sess.sid)
        if after is not None:
            self.C("c04_keyword_alias")
            self.ctx.nontrivial = True
            sysb = {f for f in before if f.startswith("\\") or f == "unseen"}
            sysa = {f for f in after if f.startswith("\\") or f == "unseen"}
            if sysa != sysb:
                self.V("C04", "keyword_aliases_system_flag", kw=kw, cmd=f"STORE {n} +FLAGS.SILENT ({kw})", reply=r.brief(), before=sorted(before), after=sorted(after))
        await self.after_mutation([box], "store")

    async def op_search(self, op):
        sess, ms = self.sess(op)
        if sess is None or ms.dead:
            return
        box = ms.selected
        key = op.get("key", "ALL")
        r = await self.run_cmd(sess, ms, f"{'UID ' if op.get('uid') else ''}SEARCH {key}")
        if r.status is not None and box is not None and not r.ok and key.upper().split()[0] in ("KEYWORD", "UNKEYWORD") and key.isascii() and not ms.maybe_pending \
                and "pending" not in (r.text or "").lower():
            # C04: a search by flag agrees with FETCH FLAGS - for a keyword no message can carry that is "no message"
            # (KEYWORD) or "every message" (UNKEYWORD), not a refusal or a dropped connection
            self.C("c04_search_answered")
            self.V("C04", "search_refused", key=key, reply=r.brief())
        if r.status is None or box is None or not r.ok or not self.compare or box.uncertain:
            return
        got = []
        for u in r.untagged:
            if u.kind == "SEARCH":
                got.extend(int(x) for x in (u.tokens or []) if isinstance(x, Atom) and x.isdigit())
        if not op.get("uid"):
            if not self.view_synced(sess, box):
                return
            got = [sess.view[n - 1] for n in got if 1 <= n <= len(sess.view)]
            if any(g is None for g in got):
                return
        exp = self.eval_flag_key(box, key)
        if exp is None:
            return
        self.C("c04_search")
        if sorted(got) != sorted(exp):
            self.V("C04", "search_flag_disagrees", key=key, got=sorted(got), model=sorted(exp), mailbox=box.name)

    def eval_flag_key(self, box, key):
        k = key.upper().split()
        simple = {
            "ALL": lambda m: True,
            "SEEN": lambda m: "\\seen" in m.flags,
            "UNSEEN": lambda m: "\\seen" not in m.flags,
            "FLAGGED": lambda m: "\\flagged" in m.flags,
            "UNFLAGGED": lambda m: "\\flagged" not in m.flags,
            "DELETED": lambda m: "\\deleted" in m.flags,
            "UNDELETED": lambda m: "\\deleted" not in m.flags,
            "ANSWERED": lambda m: "\\answered" in m.flags,
            "UNANSWERED": lambda m: "\\answered" not in m.flags,
            "DRAFT": lambda m: "\\draft" in m.flags,
            "UNDRAFT": lambda m: "\\draft" not in m.flags,
        }
        if len(k) == 1 and k[0] in simple:
            f = simple[k[0]]
        elif len(k) == 2 and k[0] in ("KEYWORD", "UNKEYWORD"):
            kw = key.split()[1]
            f = (lambda m: kw in m.flags) if k[0] == "KEYWORD" else (lambda m: kw not in m.flags)
        else:
            return None
        if any(m.uid is None for m in box.msgs):
            return None
        return [m.uid for m in box.msgs if f(m)]

    def apply_expunge(self, box, uids):
        gone = [m for m in box.msgs if m.uid in uids]
        box.msgs = [m for m in box.msgs if m.uid not in uids]
        return gone

    async def op_expunge(self, op):
        sess, ms = self.sess(op)
        if sess is None or ms.dead:
            return
        box = ms.selected
        cmd = "EXPUNGE"
        restrict = None
        if op.get("uidset") is not None:
            await self.ensure_known(sess, ms)
            txt, restrict, _ = self.resolve_set(sess, ms, {"uid": True, "set": op["uidset"]})
            cmd = f"UID EXPUNGE {txt}"
            if getattr(ms, "sel_uvv", None) is not None and restrict is not None and "all" not in op["uidset"] and "raw" not in op["uidset"]:
                if self.uidexp_allowed.get(ms.sel_uvv, ()) is not None:
                    self.uidexp_allowed.setdefault(ms.sel_uvv, set()).update(u for u in restrict if u is not None)
            elif getattr(ms, "sel_uvv", None) is not None and "all" in op["uidset"]:
                self.seen_uids.pop(ms.sel_uvv, None)  # 1:* names everything: nothing to check for this mailbox any more
                self.uidexp_allowed[ms.sel_uvv] = None
            else:
                self.other_removal = True
        else:
            self.other_removal = True
        r = await self.run_cmd(sess, ms, cmd)
        if r.status is None or box is None or ms.dead:
            return
        if not self.compare or box.uncertain:
            if r.ok:
                self.others_changed(box, sess.sid)
            await self.after_mutation([box], "expunge")
            return
        if r.ok and not ms.readonly:
            dele = {m.uid for m in box.msgs if "\\deleted" in m.flags}
            if any(u is None for u in dele):
                box.uncertain = True
            if restrict is not None:
                dele &= set(restrict)
            if dele:
                self.ctx.nontrivial = True
                self.ctx.probe("expunge_removed_messages")
            self.apply_expunge(box, dele)
            self.others_changed(box, sess.sid)
        await self.after_mutation([box], "expunge")
        if not ms.readonly:
            # (the property names NOOP/CHECK/IDLE as flush points; a read-write EXPUNGE goes through the
            # same resync + flush, an EXPUNGE from an EXAMINE session is refused/no-op without either)
            self.check_flush(sess, ms, box, "EXPUNGE")

    async def op_close(self, op):
        sess, ms = self.sess(op)
        if sess is None or ms.dead:
            return
        box = ms.selected
        ro = ms.readonly
        self.other_removal = True
        r = await self.run_cmd(sess, ms, "CLOSE")
        if r.status is None or ms.dead:
            return
        if r.ok:
            ms.selected = None
        if box is None:
            return
        if r.ok and not ro and self.compare and not box.uncertain:
            dele = {m.uid for m in box.msgs if "\\deleted" in m.flags}
            if dele:
                self.ctx.nontrivial = True
            self.apply_expunge(box, dele)
            self.others_changed(box, sess.sid)
        await self.after_mutation([box], "close")

    async def op_copy(self, op, move=False):
        sess, ms = self.sess(op)
        if sess is None or ms.dead:
            return
        box = ms.selected
        dstname = op["dst"]
        dst = self.model.box(dstname)
        verb = "MOVE" if move else "COPY"
        if move:
            self.other_removal = True
        if box is None:
            await self.run_cmd(sess, ms, f"{'UID ' if op.get('uid') else ''}{verb} 1 {spell(dstname, op)}")
            return
        await self.ensure_known(sess, ms)
        txt, uids, valid = self.resolve_set(sess, ms, op)
        vlen = list(sess.view or [])  # (the whole view: an EXPUNGE plus an EXISTS leave the length unchanged)
        view_before = list(sess.view or [])
        r = await self.run_cmd(sess, ms, f"{'UID ' if op.get('uid') else ''}{verb} {txt} {spell(dstname, op)}")
        if r.status is None or ms.dead:
            self.tag_taint = True  # it may have copied tagged messages anywhere
            return
        cu = self.copyuid_of(r)
        sel = getattr(ms, "sel_uvv", None)
        if cu is not None and sel is not None and cu[0] == sel[1] and (dstname.lower() == sel[0].lower()):
            self.selfcopied.add(sel)
        if cu is not None and dst is not None and (dst.uvv is None or dst.uvv == cu[0]):
            try:
                c_ = code_of(r, "COPYUID")
                du_ = parse_uidset(str(c_[2])) if c_ and len(c_) > 2 else []
            except Exception:
                du_ = []
            if len(du_) == len(cu[1]):
                for su_, d_ in zip(cu[1], du_):
                    t_ = box.ledger.get(su_)
                    if t_ is not None:
                        dst.claims[d_] = (t_, f"COPYUID of {verb} {txt}")
        st_ = op.get("set") or {"all": True}
        if cu is not None and op.get("uid") and valid is True and uids is not None and "all" not in st_ and "raw" not in st_:
            # under every schedule: the messages reported as copied are among those the UID set named
            self.C("c05_copyuid_subset")
            extra = sorted(set(cu[1]) - set(u for u in uids if u is not None))
            if extra:
                self.V("C05", "copy_hit_wrong_message", session=sess.sid, cmd=f"UID {verb} {txt}", asked=sorted(u for u in uids if u is not None), copied=sorted(cu[1]))
        if not op.get("uid") and "pos" in (op.get("set") or {}) and not self.view_synced_list(view_before, box) and any(u.kind == "EXPUNGE" for u in r.untagged):
            # The session had EXPUNGEs pending.  COPY/MOVE may legally flush
            # them first; the numbers are then booked against the view after
            # the EXPUNGEs that preceded the command's first effect.
            v = list(view_before)
            for u in r.untagged:
                if u.kind == "OK" and u.code and str(u.code[0]).upper() == "COPYUID":
                    break
                if u.kind == "EXPUNGE" and u.num and 1 <= u.num <= len(v):
                    del v[u.num - 1]
                elif u.kind == "EXISTS" and u.num is not None and u.num > len(v):
                    v.extend([None] * (u.num - len(v)))
            nums = op["set"]["pos"]
            if all(1 <= p <= len(v) for p in nums) and nums:
                uids, valid = [v[p - 1] for p in nums], True
            else:
                uids, valid = [], False
            self.C("c01_flush_then_copy")
            # C01: a sequence number the server accepts denotes the message it denoted in the session's
            # replayed view when the command was sent. If the server first sends EXPUNGEs and then applies
            # the numbers to the new numbering, it acts on a message the client did not name.
            meant = [view_before[p - 1] for p in nums if 1 <= p <= len(view_before)]
            if r.ok and cu is not None and len(meant) == len(nums) and all(u is not None for u in meant) and any(u.kind == "EXPUNGE" for u in r.untagged):
                if sorted(set(cu[1])) != sorted(set(meant)):
                    self.V("C01", "seq_accepted_wrong_message", session=sess.sid, cmd=f"{verb} {txt}", meant=sorted(set(meant)), acted_on=sorted(set(cu[1])), why="EXPUNGE sent inside the command, numbers applied afterwards")
                    self.V("C05", "copy_hit_wrong_message", session=sess.sid, cmd=f"{verb} {txt}", asked=sorted(set(meant)), copied=sorted(set(cu[1])))
        if ("*" in txt or valid is False) and (list(sess.view or []) != vlen or any(u.kind == "EXISTS" for u in r.untagged)):
            uids = None
            valid = None
        boxes = [box] + ([dst] if dst is not None else [])
        if not self.compare or box.uncertain or uids is None or (dst is not None and dst.uncertain):
            if r.ok:
                box.uncertain = True
                if dst is not None:
                    dst.uncertain = True
                self.others_changed(box, sess.sid)
            await self.after_mutation(boxes, verb.lower())
            return
        if dst is None or dst.noselect:
            self.C("c05_copy_missing_dst")
            if r.ok:
                self.V("C05", "copy_to_missing_mailbox_ok", dst=dstname)
            elif dst is not None:
                self.placeholder_untouched(dst, f"{verb} {txt} {dstname}", r)
            await self.after_mutation(boxes, verb.lower() + "-refused")
            return
        if not r.ok:
            self.C("c05_refused_noeffect")
            await self.after_mutation(boxes, verb.lower() + "-refused")
            return
        if valid is False and not op.get("uid"):
            self.V("C05", "out_of_range_accepted", cmd=f"{verb} {txt}", view=len(sess.view or []))
        if any(u is None for u in uids):
            box.uncertain = dst.uncertain = True
            await self.after_mutation(boxes, verb.lower())
            return
        if move and ms.readonly:
            self.C("c05_readonly")
            self.V("C05", "readonly_session_mutated", cmd=f"MOVE {txt}", mailbox=box.name)
        self.ctx.nontrivial = True
        srcs = []
        seen = set()
        for u in uids:
            m = box.by_uid(u)
            if m is not None and u not in seen:
                srcs.append(m)
                seen.add(u)
        c = code_of(r, "COPYUID")
        self.C("c02_copyuid")
        news = [MMsg(None, m.tok, m.flags, m.date) for m in srcs]
        for m, nm in zip(srcs, news):
            nm.amb, nm.mh_amb = m.amb, m.mh_amb  # a split delivery stays ambiguous until first observed
        if srcs:
            if not c:
                self.V("C02", "copyuid_missing", cmd=f"{verb} {txt}", reply=r.brief())
            else:
                try:
                    uvv = int(c[0])
                    su = parse_uidset(c[1]) if len(c) > 2 else []
                    du = parse_uidset(c[2]) if len(c) > 2 else []
                except Exception:
                    uvv, su, du = None, [], []
                self.check_uid_codes(dst, uvv, None, "COPYUID")
                if sorted(su) != sorted(m.uid for m in srcs) or len(du) != len(su):
                    self.V("C02", "copyuid_wrong", cmd=f"{verb} {txt}", src=su, dst=du, expected_src=sorted(m.uid for m in srcs))
                else:
                    bysrc = dict(zip(su, du))
                    for m, nm in zip(srcs, news):
                        nm.uid = bysrc[m.uid]
                    if any(d <= dst.max_uid for d in du) or len(set(du)) != len(du):
                        self.V("C02", "uid_reused", mailbox=dst.name, uids=du, max_uid=dst.max_uid, where="COPYUID")
                    # destination order is by uid
                    news.sort(key=lambda x: x.uid)
                    dst.max_uid = max([dst.max_uid] + du)
        if dst is box and move:
            pass
        dst.msgs.extend(news)
        if move:
            self.apply_expunge(box, {m.uid for m in srcs})
        self.others_changed(box, sess.sid)
        self.others_changed(dst, sess.sid if dst is box else None)
        await self.after_mutation(boxes, verb.lower())

    async def op_move(self, op):
        await self.op_copy(op, move=True)

    def check_flush(self, sess, ms, box, verb):
        """C01: after NOOP/CHECK/IDLE flushed, the replayed view equals the list."""
        if not self.compare or box is None or box.uncertain or sess.view is None:
            return
        self.C("c01_flush_equal")
        if not (self.min_visible(box) <= len(sess.view) <= len(box.msgs)) or any(
            c is not None and m.uid is not None and c != m.uid for c, m in zip(sess.view, box.msgs)
        ):
            self.V(
                "C01", "view_differs_after_flush", session=sess.sid, verb=verb, view=list(sess.view),
                model=[m.uid for m in box.msgs], mailbox=box.name,
            )
            return
        # C04(e): everything this session was told about flags is now current
        self.C("c04_propagation")
        for m in box.msgs:
            k = ms.know.get(m.uid)
            if k is not None and m.amb and (k ^ m.flags) == {"\\seen"}:
                continue  # split delivery looked at midway: either seen-ness is legitimate until the observer settles it
            if k is not None and k != m.flags:
                self.V(
                    "C04", "change_not_propagated", session=sess.sid, uid=m.uid, told=sorted(k), model=sorted(m.flags), verb=verb,
                )
                ms.know[m.uid] = m.flags
        ms.maybe_pending = False

    async def op_noop(self, op):
        sess, ms = self.sess(op)
        if sess is None or ms.dead:
            return
        verb = "CHECK" if op.get("check") else "NOOP"
        box = ms.selected
        r = await self.run_cmd(sess, ms, verb)
        if r.status is None or ms.dead or not r.ok or box is None:
            return
        if self.compare:
            # bring the model up to date with what a resync has certainly seen
            await self.after_mutation([box], verb.lower())
            self.check_delivery_announced(sess, ms, box, verb)
            self.check_flush(sess, ms, box, verb)

    async def op_check(self, op):
        await self.op_noop(dict(op, check=True))

    async def op_idle(self, op):
        sess, ms = self.sess(op)
        if sess is None or ms.dead:
            return
        r = await sess.idle_start()
        self.results.append((self.op_index, r.brief()))
        if not r.cont:
            self.session_gone(sess, ms, r, "IDLE") if r.status is None else None
            return
        ms.idling = True

    async def op_done(self, op):
        sess, ms = self.sess(op)
        if sess is None or ms.dead or not getattr(ms, "idling", False):
            return
        box = ms.selected
        r = await sess.idle_done()
        ms.idling = False
        self.results.append((self.op_index, r.brief()))
        if self.session_gone(sess, ms, r, "DONE"):
            return
        self.check_prompt(sess, r, "IDLE/DONE")
        if r.ok and box is not None and self.compare:
            # Ending an IDLE flushes what the server knows; unlike NOOP it does not look at the folder.
            # A delivery younger than the idle poll period (1-5 s) need not have been found yet.
            # (decided before the observer looks: its probe makes the server notice - and gives the message its UID)
            now = self.loop.time()
            young = any(m.uid is None and m.born is not None and now - m.born < 7.0 for m in box.msgs)
            await self.after_mutation([box], "done")
            if young:
                return
            self.check_delivery_announced(sess, ms, box, "DONE")
            self.check_flush(sess, ms, box, "IDLE")

    async def op_wait(self, op):
        await asyncio.sleep(op.get("dt", 1.0))

    async def op_gc(self, op):
        import gc

        gc.collect()
        self.env.fired("gc")

    async def op_raw(self, op):
        sess, ms = self.sess(op)
        if sess is None or ms.dead:
            return
        line = op["line"]
        if isinstance(line, str):
            line = line.encode("latin-1")
        r = await self.run_cmd(sess, ms, line, tag=op.get("tag"))
        # a raw command may have changed anything: resynchronise the model
        if r.ok and op.get("mutates", True):
            for b in self.model.boxes.values():
                b.uncertain = True
        v = (r.verb or "").upper()
        if v in ("SELECT", "EXAMINE"):
            ms.selected = None
            if r.ok:
                ms.selected = self.model.box(sess.selected) if sess.selected else None
                if ms.selected is None:
                    sess.view = sess.view
        elif v in ("CLOSE", "UNSELECT") and r.ok:
            ms.selected = None
        elif v == "LOGOUT":
            ms.dead = True

    async def op_rmf(self, op):
        """An MH user removes a folder with all its messages (`rmf`) while the server runs."""
        import shutil

        box = self.model.box(op["mbox"])
        path = os.path.join(self.maildir, norm_mbox_name(op["mbox"]))
        if not os.path.isdir(path) or any(os.path.isdir(os.path.join(path, d_)) for d_ in os.listdir(path)):
            return  # (only leaf folders)
        shutil.rmtree(path, ignore_errors=True)
        self.env.fired("folder_removed_externally")
        if box is not None:
            for b in self.model.boxes.values():
                b.uncertain = True
            self.model.boxes.pop(norm_mbox_name(op["mbox"]), None)
            for m2 in self.model.sessions.values():
                if m2.selected is box:
                    m2.selected = None
                    m2.lost_mailbox = True

    async def op_raw_in_idle(self, op):
        """Send something other than DONE while idling (the server answers
        with an untagged NO / a re-prompt and keeps idling)."""
        sess, ms = self.sess(op)
        if sess is None or ms.dead or not getattr(ms, "idling", False):
            return
        line = op["line"].encode("latin-1")
        self.world.note("C>" + sess.sid, line)
        sess._send_command(line)
        await asyncio.sleep(0.2)

    async def op_logout(self, op):
        sess, ms = self.sess(op)
        if sess is None or ms.dead:
            return
        r = await sess.command("LOGOUT")
        self.C("c06_logout")
        if r.status is None and not sess.bye:
            self.V("C06", "session_dead_without_bye", session=sess.sid, cmd="LOGOUT")
        ms.dead = True
        ms.selected = None

    async def op_reconnect(self, op):
        sid = op["s"]
        old = self.sessions.get(sid)
        if old is not None:
            old.close()
        await asyncio.sleep(0.01)
        if self.node is not None and self.node.alive():
            try:
                self.connect(sid)
            except ConnectionRefusedError:
                pass

    async def op_drop(self, op):
        sess, ms = self.sess(op)
        if sess is None:
            return
        if op.get("reset"):
            sess.abort()
            self.env.fired("client_reset")
        else:
            sess.close()
            self.env.fired("client_eof")
        ms.dead = True
        ms.selected = None
        await asyncio.sleep(0.05)

    async def op_probe(self, op):
        if self.compare:
            await self.probe_all(only=op.get("mboxes"))

    # ---------------------------------------------------------------- agent
    async def op_deliver(self, op):
        """External MH agent: next free number, optional `unseen`, split or not."""
        name = op.get("mbox", "inbox")
        box = self.model.box(name)
        path = os.path.join(self.maildir, name)
        if box is None or not os.path.isdir(path):
            return
        count = op.get("count", 1)
        unseen = op.get("unseen", True)
        # the property conditions on the folder's mtime advancing: make it so
        if op.get("advance", True):
            # (re-checked after every sleep: the server may touch the folder
            # while the agent waits)
            for _ in range(50):
                try:
                    mt = int(max(os.stat(path).st_mtime, os.stat(os.path.join(path, ".mh_sequences")).st_mtime))
                except OSError:
                    mt = 0
                now = self.env.wall()
                if int(now) > mt:
                    break
                await asyncio.sleep(mt + 1 - now + 0.01)
        if not os.path.isdir(path):
            return  # deleted meanwhile
        # (like mailbox.MH.add(): the highest all-digit name in the folder plus one - a sub-folder such as a/7 counts,
        # its name is taken)
        try:
            taken = [int(x) for x in os.listdir(path) if x.isdigit()]
        except OSError:
            return
        nxt = (max(taken) if taken else 0) + 1
        toks = op.get("toks") or [self.new_tok() for _ in range(count)]
        new_keys = []
        date = int(self.env.wall())
        for i, tok in enumerate(toks):
            key = nxt + i
            fn = os.path.join(path, str(key))
            with open(fn, "wb") as f:
                f.write(corpus.build(op.get("shape", "plain"), tok))
            os.utime(fn, (date + i, date + i))
            self.delivered.add((path, str(key)))
            new_keys.append(key)
            box.msgs.append(MMsg(None, tok, frozenset() if unseen else frozenset({"\\seen"}), date + i))
            box.msgs[-1].born = self.loop.time()
            if unseen and op.get("split"):
                box.msgs[-1].amb = box.msgs[-1].mh_amb = True
                self.split_delivered = True
        self.env.fired("delivery")
        for tok in toks:
            # what a plain (one-step, mtime-advancing) delivery gave the message; None = ambiguous by construction
            self.delivered_seen[tok] = (not unseen) if (op.get("advance", True) and not (unseen and op.get("split"))) else None
        if unseen:
            if op.get("split"):
                await asyncio.sleep(op.get("split_delay", 0.05))
            try:
                folder = stdmailbox.MH(path, create=False)
            except stdmailbox.NoSuchMailboxError:
                return  # renamed or deleted meanwhile (concurrent mode): the agent's second step has nowhere to go
            try:
                seqs = folder.get_sequences()
            except Exception:
                seqs = {}
            seqs.setdefault("unseen", [])
            seqs["unseen"] = sorted(set(seqs["unseen"]) | set(new_keys))
            folder.set_sequences(seqs)
        self.ctx.nontrivial = True
        self.ctx.probe("deliveries")
        for sid, ms in self.model.sessions.items():
            if ms.selected is box:
                ms.maybe_pending = True
                ms.delivery_due = getattr(ms, "delivery_due", 0) + len(toks)

    def check_delivery_announced(self, sess, ms, box, verb):
        due = getattr(ms, "delivery_due", 0)
        if not due:
            return
        ms.delivery_due = 0
        self.C("c13_announced")
        if box.uncertain or sess.view is None:
            return
        if not (self.min_visible(box) <= len(sess.view) <= len(box.msgs)):
            self.V(
                "C13", "delivery_not_announced", session=sess.sid, verb=verb, view=len(sess.view), model=len(box.msgs), mailbox=box.name,
            )
        else:
            self.ctx.probe("delivery_announced")

    # ------------------------------------------------------------- lifecycle
    async def snapshot_visible(self):
        """What a client can see: per mailbox SELECT data + UID FETCH, LIST, LSUB."""
        snap = {"boxes": {}, "list": None, "lsub": None}
        o = self.obs
        r = await o.command('LIST "" *')
        snap["list"] = sorted(self.parse_list(r))
        r = await o.command('LSUB "" *')
        snap["lsub"] = sorted(self.parse_list(r, "LSUB"))
        for name, attrs in snap["list"]:
            if "\\noselect" in attrs:
                continue
            nm = "inbox" if name.upper() == "INBOX" else name
            box = self.model.boxes.get(nm) or MBox(nm)
            p = await self.probe_box(box)
            if p is None or not p["ok"]:
                snap["boxes"][nm] = None
                continue
            st = await o.command(f"STATUS {quote(name)} (MESSAGES UIDNEXT UIDVALIDITY UNSEEN)")
            status = None
            for u in st.untagged:
                if u.kind == "STATUS" and u.tokens and isinstance(u.tokens[-1], list):
                    t = u.tokens[-1]
                    status = {str(t[i]).upper(): int(t[i + 1]) for i in range(0, len(t) - 1, 2)}
            snap["boxes"][nm] = {
                "uvv": p["uvv"], "uidnext": p["uidnext"], "exists": p["exists"],
                "msgs": [(g["uid"], sorted(g["flags"])) for g in p["msgs"]],
                "status": status,
            }
        return snap

    def parse_list(self, r, kind="LIST"):
        out = []
        for u in r.untagged:
            if u.kind == kind and u.tokens and len(u.tokens) >= 3:
                attrs = tuple(sorted(str(a).lower() for a in u.tokens[0]))
                name = u.tokens[2]
                name = bytes(name).decode("latin-1") if isinstance(name, Lit) else str(name)
                out.append((name, attrs))
        return out

    async def op_restart(self, op):
        """Orderly shutdown and relaunch (C12)."""
        kind = op.get("kind", "expire")
        inflight = op.get("inflight")
        incomplete = False
        pre = None
        if inflight is not None and self.sessions.get(inflight.get("s")) is not None:
            # C12: the orderly shutdown arrives while a command is in flight (SIGINT/SIGTERM of the per-user server
            # with clients connected).  The command is sent, and at its `at_event`-th storage event (file-system
            # mutation or db write) the shutdown begins.
            kind = "cancel"
            pre = {n: (b.uvv, [(m.uid, m.tok) for m in b.msgs]) for n, b in self.model.boxes.items() if not b.noselect and not b.uncertain}
            self._pre_names = set(self.model.boxes)  # (the victim's own handler may get as far as updating the model)
            cnt = {"k": 0}
            trig = asyncio.Event()
            prev_hook = self.env.storage_hook

            def hook(kind_, a, b, _cnt=cnt, _trig=trig, _prev=prev_hook, _at=int(op.get("at_event", 1))):
                if _prev is not None:
                    _prev(kind_, a, b)
                _cnt["k"] += 1
                if _cnt["k"] >= _at:
                    _trig.set()

            self.env.storage_hook = hook
            self.shutting_down = True
            fut = asyncio.ensure_future(self.do_op(inflight))
            tw = asyncio.ensure_future(trig.wait())
            await asyncio.wait({fut, tw}, return_when=asyncio.FIRST_COMPLETED, timeout=120)
            self.env.storage_hook = prev_hook
            tw.cancel()
            incomplete = not fut.done()
            self.ctx.probe("shutdown_with_command_in_flight", 1 if incomplete else 0)
            if incomplete:
                self.env.fired("shutdown_in_flight")
                # One cancellation of run() (one SIGINT).  asyncio's Server.wait_closed() lets the connected clients
                # finish first, so the command goes on until its client is gone: the clients drop their connections
                # (no LOGOUT) a moment later, the victim's first.
                self.node.run_task.cancel()
                await asyncio.sleep(float(op.get("drop_after", 0.0)))
                order = [inflight.get("s")] + [x for x in self.sessions if x != inflight.get("s")]
                for sid in order:
                    s_ = self.sessions.get(sid)
                    if s_ is not None and not s_.lost:
                        s_.close()
                ok = await self.node.stop_cancel(cancel=False)
                if not ok:
                    self.V("C12", "shutdown_hung", waited=300, inflight=inflight.get("op"))
                    if os.environ.get("VERIF_DEBUG_TASKS"):
                        for t in asyncio.all_tasks():
                            if not t.done():
                                print("TASK", t.get_name())
                                t.print_stack(limit=6)
                done, _ = await asyncio.wait({fut}, timeout=60)
                if not done:
                    fut.cancel()
                    try:
                        await fut
                    except BaseException:
                        pass
                elif fut.exception() is not None:
                    raise fut.exception()
            elif fut.exception() is not None:
                raise fut.exception()
            self.shutting_down = False
        before = await self.snapshot_visible() if op.get("compare", True) and not incomplete else None
        for sid, s in list(self.sessions.items()):
            if not s.lost and not incomplete:
                try:
                    await s.command("LOGOUT")
                except Exception:
                    pass
                s.close()
            self.model.sessions[sid].dead = True
            self.model.sessions[sid].selected = None
            if incomplete:
                s.close()
        await asyncio.sleep(0.05)
        self.restarts += 1
        if incomplete:
            pass  # already stopped
        elif kind == "expire":
            ok = await self.node.wait_exit(timeout=1800 + 120)
            self.ctx.probe("idle_expiry_exit", 1 if ok else 0)
            if not ok:
                self.V("C12", "no_exit_after_idle", waited=1920)
                await self.node.stop_cancel()
        else:
            ok = await self.node.stop_cancel()
            if not ok:
                self.V("C12", "shutdown_hung", waited=300)
        self.env.fired("restart_orderly")
        # things that may happen while the server is down
        for sub in op.get("while_down", []):
            await self.do_op(sub)
        if not await self.start_node():
            self.ended = "restart_failed"
            return
        self.sessions = {}
        self.obs = self.connect("obs", "10.0.0.9")
        for s in self.prog.get("sessions", []):
            if s.get("proto", "imap") == "imap":
                self.connect(s["id"])
        if before is not None:
            after = await self.snapshot_visible()
            self.compare_snapshots(before, after, bool(op.get("while_down")))
        if incomplete:
            await self.after_inflight_shutdown(pre, inflight)
        self.ctx.nontrivial = True

    async def after_inflight_shutdown(self, pre, victim):
        """The state after an orderly shutdown that interrupted `victim`: neither the old nor the new state can be
        demanded of the mailboxes the command worked on, but what survives keeps its identity (same UIDVALIDITY =>
        same UID for the same message, ledger: no UID names another message), every listed mailbox can be
        selected, and a second orderly restart changes nothing (checked by the ordinary comparison)."""
        self.C("c12_inflight_shutdown")
        r = await self.obs.command('LIST "" "*"')
        listed = {("inbox" if n.upper() == "INBOX" else n): a for n, a in self.parse_list(r)}
        # the mailbox list is the one from before the command or the one the completed command gives
        names_before = set(getattr(self, "_pre_names", None) or self.model.boxes)
        names_after = set(names_before)
        vop = victim.get("op")
        if vop == "rename":
            old, new = norm_mbox_name(victim["name"]), norm_mbox_name(victim["to"])
            if old in names_before and new not in names_before and new not in (".", "") and not new.startswith(old + "/"):
                if old == "inbox":
                    names_after = names_before | {new}
                else:
                    names_after = {(new + n[len(old):]) if (n == old or n.startswith(old + "/")) else n for n in names_before}
                parts = new.split("/")
                names_after |= {"/".join(parts[:j]) for j in range(1, len(parts))}
        elif vop == "create":
            new = norm_mbox_name(victim["name"])
            if new not in (".", ""):
                parts = new.split("/")
                names_after = names_before | {"/".join(parts[:j]) for j in range(1, len(parts) + 1)}
        elif vop == "delete":
            names_after = names_before - {norm_mbox_name(victim["name"].lstrip("/"))}
        if vop in ("rename", "create", "delete"):
            self.C("c12_inflight_namespace")
            # (a SPECIAL-USE mailbox that is missing at start-up is created again: allowed by the statement)
            got = set(listed) - SPECIAL_USE
            names_before -= SPECIAL_USE
            names_after -= SPECIAL_USE
            if got != names_before and got != names_after and got != (names_before | names_after if vop == "create" else None):
                self.V("C12", "restart_changed_list", inflight=vop, neither_old_nor_new=True, extra=sorted(got - names_before - names_after)[:6],
                       missing=sorted((names_before & names_after) - got)[:6])
        for root, dirs, files in os.walk(self.maildir):
            for d_ in list(dirs) + list(files):
                if os.path.islink(os.path.join(root, d_)):
                    self.V("C12", "symlink_left_in_mail_directory", path=os.path.relpath(os.path.join(root, d_), self.maildir), inflight=vop)
        # the namespace as it is now
        for n in list(self.model.boxes):
            if n not in listed:
                del self.model.boxes[n]
        for n, attrs in listed.items():
            b = self.model.boxes.get(n)
            if b is None:
                b = self.model.boxes[n] = MBox(n)
                b.uncertain = True
            nosel = "\\noselect" in attrs
            if nosel != b.noselect:
                b.noselect = nosel
                b.msgs = []
                b.uvv = None
                b.uncertain = not nosel
        for n, b in self.model.boxes.items():
            if not b.noselect:
                b.uncertain = True
                b.subscribed_unknown = True
        r = await self.obs.command('LSUB "" "*"')
        subs = {("inbox" if n.upper() == "INBOX" else n) for n, _ in self.parse_list(r, "LSUB")}
        for n, b in self.model.boxes.items():
            b.subscribed = n in subs
        for n, b in sorted(self.model.boxes.items()):
            if b.noselect:
                continue
            was = pre.get(n) if pre else None
            old_uvv = b.uvv
            p = await self.probe_box(b)
            if p is None or not p["ok"]:
                self.V("C12", "mailbox_unselectable_after_shutdown", mailbox=n, inflight=victim.get("op"))
                continue
            await self.compare_box(b, why="inflight-shutdown")
            # (MOVE gives the messages it moves new UIDs, within the same mailbox too; a mailbox whose DELETE or RENAME
            # was cut short is the command's own subject)
            if was is not None and was[0] is not None and p["uvv"] == was[0] and victim.get("op") in ("expunge", "close", "store", "copy", "append", "create"):
                self.C("c12_inflight_survivors_keep_uid")
                olduid = {tok: uid for uid, tok in was[1] if uid is not None and tok is not None}
                for g in p["msgs"]:
                    if g["tok"] in olduid and olduid[g["tok"]] != g["uid"] and [t for _, t in was[1]].count(g["tok"]) == 1 and [x["tok"] for x in p["msgs"]].count(g["tok"]) == 1:
                        self.V("C12", "restart_changed_uid", mailbox=n, tok=g["tok"], was=olduid[g["tok"]], now=g["uid"], inflight=victim.get("op"))
                        break
        # and a second orderly restart changes nothing
        await self.op_restart({"actor": "life", "op": "restart", "kind": "cancel"})

    def compare_snapshots(self, before, after, changed_while_down):
        self.C("c12_restart_compare")
        bl = {n: a for n, a in before["list"]}
        al = {n: a for n, a in after["list"]}
        for n in bl:
            if n not in al:
                self.V("C12", "restart_changed_list", lost=n)
        for n in al:
            if n not in bl and n not in SPECIAL_USE:
                self.V("C12", "restart_changed_list", appeared=n)
        for n in bl:
            if n in al:
                KEEP = ("\\noselect", "\\haschildren", "\\hasnochildren", "\\junk", "\\drafts", "\\sent", "\\trash", "\\archive", "\\flagged", "\\all")
                ka = {x for x in al[n] if x in KEEP}
                kb = {x for x in bl[n] if x in KEEP}
                if ka != kb:
                    self.V("C12", "restart_changed_list_attrs", name=n, before=sorted(kb), after=sorted(ka))
        if sorted(before["lsub"]) != sorted(after["lsub"]):
            b = {n for n, _ in before["lsub"]}
            a = {n for n, _ in after["lsub"]}
            if a != b:
                self.V("C12", "restart_changed_lsub", before=sorted(b), after=sorted(a))
        for n, b in before["boxes"].items():
            a = after["boxes"].get(n)
            if b is None:
                continue
            if a is None:
                self.V("C12", "restart_changed_selectable", mailbox=n)
                continue
            if a["uvv"] != b["uvv"]:
                self.V("C12", "restart_changed_uidvalidity", mailbox=n, before=b["uvv"], after=a["uvv"])
            if changed_while_down:
                # deliveries while down legitimately add messages at the end
                nb = len(b["msgs"])
                if a["msgs"][:nb] != b["msgs"]:
                    self.V("C12", "restart_changed_messages", mailbox=n, before=b["msgs"], after=a["msgs"][:nb])
                if a["uidnext"] < b["uidnext"]:
                    self.V("C12", "restart_changed_uidnext", mailbox=n, before=b["uidnext"], after=a["uidnext"])
                continue
            if a["uidnext"] != b["uidnext"]:
                self.V("C12", "restart_changed_uidnext", mailbox=n, before=b["uidnext"], after=a["uidnext"])
            if a["msgs"] != b["msgs"]:
                self.V("C12", "restart_changed_messages", mailbox=n, before=b["msgs"], after=a["msgs"])
            if a["status"] != b["status"] and a["status"] and b["status"]:
                for k in ("MESSAGES", "UIDNEXT", "UIDVALIDITY", "UNSEEN"):
                    if a["status"].get(k) != b["status"].get(k):
                        self.V("C12", "restart_changed_status", mailbox=n, item=k, before=b["status"].get(k), after=a["status"].get(k))
                        break


# ---------------------------------------------------------------------------
# namespace (C17) -- mixed into Interp below
#
def imap_match(pattern, name):
    """IMAP LIST wildcard match: `*` any, `%` any but '/'.  Written
    independently of asimap (recursive, no regex)."""

    def m(pi, ni):
        while pi < len(pattern):
            c = pattern[pi]
            if c == "*":
                for k in range(ni, len(name) + 1):
                    if m(pi + 1, k):
                        return True
                return False
            if c == "%":
                k = ni
                while True:
                    if m(pi + 1, k):
                        return True
                    if k >= len(name) or name[k] == "/":
                        return False
                    k += 1
            if ni >= len(name) or name[ni] != c:
                return False
            pi += 1
            ni += 1
        return ni == len(name)

    return m(0, 0)


def norm_mbox_name(name):
    """The one spelling of a mailbox name: no empty or "." components, no leading or trailing separator, INBOX (also
    as the first part of the name of a mailbox below it) in one case."""
    parts = [p for p in name.split("/") if p not in ("", ".")]
    if parts and parts[0].lower() == "inbox":
        parts[0] = "inbox"
    return "/".join(parts) if parts else "."


_LIST_EXT = re.compile(r'^(?:\((?P<sel>[^)]*)\) )?"(?P<ref>[^"]*)" (?:\((?P<pats>[^)]*)\)|"(?P<p1>[^"]*)")(?: RETURN \((?P<ret>.*)\))?$')


class NamespaceOps:
    def ns_expected_list(self, ref, pat, lsub=False):
        full = ref + pat
        out = {}
        for name, box in self.model.boxes.items():
            shown = "INBOX" if name == "inbox" else name
            if lsub and not box.subscribed:
                continue
            ok = imap_match(full, shown)
            if name == "inbox":
                # INBOX is case-insensitive: an exact name in any case must
                # match; a wildcard pattern that matches only in some case
                # is left open (None = don't care)
                if full.upper() == "INBOX":
                    ok = True
                elif imap_match(full, "INBOX") != imap_match(full, "inbox") or (not ok and imap_match(full.upper(), "INBOX")):
                    ok = None
            if ok is None:
                out[shown] = None
            elif ok:
                attrs = set()
                if box.noselect:
                    attrs.add("\\noselect")
                attrs.add("\\haschildren" if self.model.children(name) else "\\hasnochildren")
                out[shown] = attrs
        return out

    async def op_list(self, op):
        sess, ms = self.sess(op)
        if sess is None or ms.dead:
            return
        ref, pat = op.get("ref", ""), op.get("pat", "*")
        verb = "LSUB" if op.get("lsub") else "LIST"
        ext = op.get("ext")
        if ext:
            line = f"LIST {ext}"
        else:
            line = f"{verb} {quote(ref)} {quote(pat)}"
            if os.environ.get("VERIF_DEBUG_DB"):
                import sqlite3, glob as _g
                for f in _g.glob(os.path.join(self.maildir, "*.db")):
                    print("DB", f, sqlite3.connect(f).execute("select name,attributes from mailboxes").fetchall())
                print("DIRS", [d[0] for d in self.dir_snapshot()])
        r = await self.run_cmd(sess, ms, line)
        if r.status is None or not self.compare or not r.ok:
            return
        if ext:
            self.check_list_extended(ext, line, r)
            return
        if pat == "" :
            return
        got = {}
        dup = []
        for name, attrs in self.parse_list(r, verb):
            if name in got:
                dup.append(name)
            got[name] = set(attrs)
        exp = self.ns_expected_list(ref, pat, lsub=bool(op.get("lsub")))
        self.C("c17_list")
        if dup:
            self.V("C17", "list_duplicate", names=dup, cmd=line)
        gi = {("INBOX" if n.upper() == "INBOX" else n): a for n, a in got.items()}
        dontcare = {n for n, a in exp.items() if a is None}
        exp = {n: a for n, a in exp.items() if a is not None}
        missing = sorted(set(exp) - set(gi))
        extra = sorted(set(gi) - set(exp) - dontcare)
        if missing:
            self.V("C17", "list_missing", cmd=line, missing=missing, got=sorted(gi))
        if extra:
            self.V("C17", "list_extra", cmd=line, extra=extra, expected=sorted(exp))
        if not op.get("lsub"):
            for n in sorted(set(exp) & set(gi)):
                want = exp[n]
                have = {a for a in gi[n] if a in ("\\noselect", "\\haschildren", "\\hasnochildren")}
                if want != have:
                    self.V("C17", "list_attr_wrong", cmd=line, name=n, expected=sorted(want), got=sorted(have))
                    break


    def check_list_extended(self, ext, line, r):
        """LIST-EXTENDED: selection options filter the names, they never change what is true about a
        mailbox that is listed - \\HasChildren exactly when an existing mailbox lies below it."""
        m = _LIST_EXT.match(ext)
        if not m:
            return
        sel = set((m.group("sel") or "").upper().split())
        ret = (m.group("ret") or "").upper()
        pats = [m.group("p1")] if m.group("p1") is not None else re.findall(r'"([^"]*)"', m.group("pats") or "")
        ref = m.group("ref") or ""
        got = {}
        for name, attrs in self.parse_list(r, "LIST"):
            got[("INBOX" if name.upper() == "INBOX" else name)] = set(attrs)
        self.C("c17_list_extended")
        # (1) attributes of whatever is listed
        for n in sorted(got):
            key = "inbox" if n == "INBOX" else n
            box = self.model.boxes.get(key)
            if box is None:
                continue  # a name the model does not have is judged by the name comparison below
            want = {"\\haschildren" if self.model.children(key) else "\\hasnochildren"}
            if box.noselect:
                want.add("\\noselect")
            have = {a for a in got[n] if a in ("\\noselect", "\\haschildren", "\\hasnochildren")}
            if want != have:
                self.V("C17", "list_attr_wrong", cmd=line, name=n, expected=sorted(want), got=sorted(have))
                return
            if "SUBSCRIBED" in sel or "SUBSCRIBED" in ret:
                if ("\\subscribed" in got[n]) != bool(box.subscribed):
                    self.V("C17", "list_attr_wrong", cmd=line, name=n, expected=["\\subscribed"] if box.subscribed else [], got=sorted(got[n]))
                    return
        # (2) the set of names, for the selections with a plain meaning
        if "RECURSIVEMATCH" in sel or any(p_ == "" for p_ in pats):
            return
        exp, dontcare = set(), set()
        for p_ in pats:
            e_ = self.ns_expected_list(ref, p_, lsub=False)
            for n, a in e_.items():
                (dontcare if a is None else exp).add(n)
        if "SUBSCRIBED" in sel:
            exp = {n for n in exp if self.model.boxes[("inbox" if n == "INBOX" else n)].subscribed}
        if "SPECIAL-USE" in sel:
            exp = {n for n in exp if n in SPECIAL_USE}
        missing = sorted(exp - set(got))
        extra = sorted(set(got) - exp - dontcare)
        if missing:
            self.V("C17", "list_missing", cmd=line, missing=missing, got=sorted(got))
        if extra:
            self.V("C17", "list_extra", cmd=line, extra=extra, expected=sorted(exp))

    async def op_lsub(self, op):
        await self.op_list(dict(op, lsub=True))

    def list_key_view(self, r):
        keep = ("\\noselect", "\\haschildren", "\\hasnochildren")
        return sorted((n, tuple(a for a in attrs if a in keep)) for n, attrs in self.parse_list(r))

    def dir_snapshot(self):
        out = []
        for root, dirs, files in os.walk(self.maildir):
            dirs.sort()
            rel = os.path.relpath(root, self.maildir)
            out.append((rel, tuple(sorted(f for f in files if f.isdigit()))))
        return sorted(out)

    async def ns_refused_unchanged(self, before_dirs, line):
        self.C("c17_refused_unchanged")
        after = self.dir_snapshot()
        if after != before_dirs:
            self.V("C17", "refused_namespace_command_had_effect", cmd=line, before=[d for d in before_dirs if d not in after][:6], after=[d for d in after if d not in before_dirs][:6])

    async def op_create(self, op):
        sess, ms = self.sess(op)
        if sess is None or ms.dead:
            return
        name = op["name"]
        before = self.dir_snapshot() if self.compare else None
        lsub_before = None
        line = f"CREATE {spell(name, op)}"
        if self.compare:
            lsub_before = self.list_key_view(await self.obs.command('LIST "" "*"'))
        r = await self.run_cmd(sess, ms, line)
        if r.status is None or not self.compare:
            return
        if not r.ok:
            # a refused CREATE leaves the tree as listed exactly as it was
            self.C("c17_refused_unchanged")
            after = self.list_key_view(await self.obs.command('LIST "" "*"'))
            if after != lsub_before:
                self.V("C17", "refused_namespace_command_had_effect", cmd=line, listed_before=[x for x in lsub_before if x not in after][:5], listed_after=[x for x in after if x not in lsub_before][:5])
        # "a/" names the same mailbox as "a"; a leading separator is stripped, "./a" and "a//b" are
        # spelled "a" and "a/b"
        name = norm_mbox_name(name)
        if name in (".", ""):
            # the mail directory itself is not a mailbox
            self.C("c17_create_root")
            if r.ok:
                self.V("C17", "create_existing_ok", name=op["name"])
            return
        key = "inbox" if name.lower() == "inbox" else name
        ex = self.model.boxes.get(key)
        if name.lower() == "inbox" or (ex is not None and not ex.noselect):
            self.C("c17_create_existing")
            if r.ok:
                self.V("C17", "create_existing_ok", name=name)
            else:
                await self.ns_refused_unchanged(before, line)
            return
        if not r.ok:
            await self.ns_refused_unchanged(before, line)
            return
        self.ctx.nontrivial = True
        if ex is not None and ex.noselect:
            ex.noselect = False
            # (what an MH agent delivered into the folder while it was a placeholder is mail of the new mailbox)
            ex.msgs = [m for m in ex.msgs if m.born is not None and m.uid is None]
            ex.uvv = ex.uvv  # keeps the value assigned when it was deleted
        parts = name.split("/")
        for j in range(1, len(parts) + 1):
            pn = "/".join(parts[:j])
            if pn and pn not in self.model.boxes:
                self.model.boxes[pn] = MBox(pn)
        await self.after_mutation([self.model.boxes[name]] if name in self.model.boxes else [], "create")
        if r.ok and self.compare:
            # C17: a namespace command leaves the messages of every other mailbox alone (a child whose
            # name is all digits must not turn up as a message of its parent)
            self.C("c17_create_leaves_parents_alone")
            self.blame = ("C17", "namespace_command_changed_messages")
            try:
                for j in range(1, len(parts)):
                    pn = "/".join(parts[:j])
                    pb = self.model.boxes.get("inbox" if pn.lower() == "inbox" else pn)
                    if pb is not None and not pb.noselect:
                        await self.compare_box(pb, why="create-child")
            finally:
                self.blame = None

    async def op_delete(self, op):
        sess, ms = self.sess(op)
        if sess is None or ms.dead:
            return
        name = op["name"]
        bare = name[1:] if name.startswith("/") else name  # one leading hierarchy separator is not part of the name
        key = norm_mbox_name(bare)
        before = self.dir_snapshot() if self.compare else None
        line = f"DELETE {spell(name, op)}"
        r = await self.run_cmd(sess, ms, line)
        if r.status is None or not self.compare:
            return
        box = self.model.boxes.get(key)
        if key == "inbox":
            self.C("c17_inbox_delete")
            if r.ok:
                self.V("C17", "inbox_deleted", reply=r.brief())
            else:
                await self.ns_refused_unchanged(before, line)
            return
        if box is None:
            self.C("c17_delete_missing")
            if r.ok:
                self.V("C17", "delete_missing_ok", name=name)
            else:
                await self.ns_refused_unchanged(before, line)
            return
        if not r.ok:
            await self.ns_refused_unchanged(before, line)
            return
        self.ctx.nontrivial = True
        kids = self.model.children(key)
        # sessions that had it selected lose it
        for sid, m2 in self.model.sessions.items():
            if m2.selected is box:
                m2.selected = None
                m2.lost_mailbox = True
        if kids:
            if self.compare:
                # C13: when the DELETE has completed the folder's .mh_sequences mentions none of the removed messages
                # (the next message an MH agent stores there gets number 1 - and would get their flags)
                self.C("c13_stale_key")
                seqs_ = self.read_mh_sequences(box)
                live_ = set(self.live_keys(box))
                stale_ = {n: sorted(set(v) - live_) for n, v in seqs_.items() if n != "__error__" and set(v) - live_}
                if stale_:
                    self.V("C13", "mh_sequences_stale_key", mailbox=box.name, stale=stale_, live=sorted(live_), why="after DELETE into \\Noselect")
            box.noselect = True
            box.msgs = []
            box.uvv_history.append(box.uvv)
            box.uvv = None
            box.renamed_in = False
            box.ledger = {}
            box.claims = {}
            box.nonrecent = set()
            box.max_uid = 0
            box.uidnext_told = 0
        else:
            del self.model.boxes[key]
            self.C("c17_deleted_leaf")
            # a deleted leaf must be neither listed nor selectable
            rr = await self.obs.command(f'LIST "" {quote(key)}')
            if any(n == key for n, _ in self.parse_list(rr)):
                self.V("C17", "deleted_leaf_still_listed", name=name, subscribed=box.subscribed, reply=rr.brief())
                # keep the model usable: asimap keeps it as a placeholder
                box.noselect = True
                box.msgs = []
                box.uvv = None
                box.renamed_in = False
                box.ledger = {}
                box.claims = {}
                box.nonrecent = set()
                box.max_uid = 0
                box.uidnext_told = 0
                self.model.boxes[key] = box

    async def op_rename(self, op):
        sess, ms = self.sess(op)
        if sess is None or ms.dead:
            return
        old, new = op["name"], op["to"]
        before = self.dir_snapshot() if self.compare else None
        line = f"RENAME {spell(old, op)} {spell(new, op)}"
        r = await self.run_cmd(sess, ms, line)
        if r.status is None or not self.compare:
            return
        old, new = norm_mbox_name(old), norm_mbox_name(new)
        okey = "inbox" if old.lower() == "inbox" else old
        nkey = "inbox" if new.lower() == "inbox" else new
        if new in (".", "") or old in (".", ""):
            self.C("c17_rename_root")
            if r.ok:
                self.V("C17", "rename_invalid_ok", old=op["name"], new=op["to"])
                for b in self.model.boxes.values():
                    b.uncertain = True
            else:
                await self.ns_refused_unchanged(before, line)
            return
        src = self.model.boxes.get(okey)
        if src is None or nkey in self.model.boxes or nkey.startswith(okey + "/"):
            self.C("c17_rename_invalid")
            if r.ok and (src is None or nkey in self.model.boxes):
                self.V("C17", "rename_invalid_ok", old=old, new=new)
                for b in self.model.boxes.values():
                    b.uncertain = True
            elif not r.ok:
                await self.ns_refused_unchanged(before, line)
            return
        if not r.ok:
            await self.ns_refused_unchanged(before, line)
            return
        self.ctx.nontrivial = True
        moved = []
        if okey == "inbox":
            nb = MBox(nkey)
            nb.msgs = [MMsg(None, m.tok, m.flags, m.date) for m in src.msgs]
            src.msgs = []
            self.model.boxes[nkey] = nb
            parts = nkey.split("/")
            for j in range(1, len(parts)):
                pn = "/".join(parts[:j])
                if pn not in self.model.boxes:
                    self.model.boxes[pn] = MBox(pn)
            self.others_changed(src, None)
            moved = [src, nb]
        else:
            for n in [okey] + self.model.children(okey):
                b = self.model.boxes.pop(n)
                nn = nkey + n[len(okey):]
                b.name = nn
                if b.uvv is None:
                    # (a \Noselect placeholder, too: it got its UIDVALIDITY when it was deleted, under its old name)
                    b.renamed_in = True
                self.model.boxes[nn] = b
                if nn in self.model.name_uvv_max and b.uvv is not None:
                    pass
                moved.append(b)
            parts = nkey.split("/")
            for j in range(1, len(parts)):
                pn = "/".join(parts[:j])
                if pn not in self.model.boxes:
                    self.model.boxes[pn] = MBox(pn)
            # nothing may remain listed / selectable under the old name
            self.C("c17_rename_left_behind")
            rr = await self.obs.command(f'LIST "" {quote(old + "*")}')
            left = [n for n, _ in self.parse_list(rr) if n == old or n.startswith(old + "/")]
            left = [n for n in left if n not in self.model.boxes]
            if left:
                self.V("C17", "rename_left_behind", old=old, new=new, still_listed=left)
        if self.compare and not getattr(self, "shutting_down", False):
            # C17: RENAME moves every message with its content, flags and internal date (and, except for the INBOX whose
            # messages go to a new mailbox, its UID) - looked at every time, whatever the probing density
            self.C("c17_rename_keeps_messages")
            self.blame = ("C17", "rename_changed_messages")
            try:
                for b in moved:
                    await self.compare_box(b, why="rename")
            finally:
                self.blame = None
        else:
            await self.after_mutation(moved, "rename")

    async def op_subscribe(self, op):
        sess, ms = self.sess(op)
        if sess is None or ms.dead:
            return
        name = op["name"]
        key = norm_mbox_name(name)
        verb = "UNSUBSCRIBE" if op.get("un") else "SUBSCRIBE"
        r = await self.run_cmd(sess, ms, f"{verb} {spell(name, op)}")
        if r.status is None or not self.compare:
            return
        box = self.model.boxes.get(key)
        if box is not None and r.ok:
            box.subscribed = not op.get("un")
            self.ctx.nontrivial = True
        elif box is None and r.ok and not op.get("un"):
            self.C("c17_subscribe_missing")

    async def op_unsubscribe(self, op):
        await self.op_subscribe(dict(op, un=True))

    async def op_status(self, op):
        sess, ms = self.sess(op)
        if sess is None or ms.dead:
            return
        name = op["mbox"]
        r = await self.run_cmd(sess, ms, f"STATUS {spell(name, op)} (MESSAGES UIDNEXT UIDVALIDITY UNSEEN RECENT)")
        if r.status is None or not r.ok:
            return
        box = self.model.box(name)
        if box is None:
            return
        for u in r.untagged:
            if u.kind == "STATUS" and u.tokens and isinstance(u.tokens[-1], list):
                t = u.tokens[-1]
                st = {str(t[i]).upper(): int(t[i + 1]) for i in range(0, len(t) - 1, 2)}
                self.check_uid_codes(box, st.get("UIDVALIDITY"), st.get("UIDNEXT"), "STATUS")


for _n, _f in list(NamespaceOps.__dict__.items()):
    if callable(_f) and not _n.startswith("__"):
        setattr(Interp, _n, _f)


# ---------------------------------------------------------------------------
# POP3 (C20) -- mixed into Interp
#
class Pop3Ops:
    async def op_pop_open(self, op):
        sid = op["s"]
        p = Pop3Session(self.world, sid)
        self.world.net.connect(self.node.port, p, addr="10.0.0.2")
        p.hello()
        self.pops[sid] = p
        p.state = {
            "uidl": None,  # n -> uid (first listing)
            "size": {},  # n -> size first announced
            "dele": set(),
            "inbox": self.model.box("inbox"),
            "opened_at": self.loop.time(),
            "retr": {},
        }
        await asyncio.sleep(0.2)
        self.ctx.nontrivial = True

    def _pop_num(self, st, arg, n):
        if arg == "last":
            return str(n)
        if arg == "beyond":
            return str(n + 1)
        if arg == "huge":
            return "9" * 5000  # more digits than Python's int() converts
        return str(arg)

    async def op_pop(self, op):
        p = self.pops.get(op["s"])
        if p is None or p.lost:
            return
        st = p.state
        n_known = len(st["uidl"]) if st["uidl"] is not None else op.get("nhint", 3)
        verb = op["verb"].upper()
        arg = op.get("arg")
        line = verb
        if arg is not None:
            line += " " + self._pop_num(st, arg, n_known)
        if op.get("arg2") is not None:
            line += f" {op['arg2']}"
        status, lines, closed = await p.command(line)
        self.C("c20_reply")
        if status is None:
            if not closed:
                self.V("C20", "pop3_no_reply", cmd=line[:80])
            else:
                # nothing a client can send in TRANSACTION state makes the server hang up without an answer
                self.C("c20_answered")
                self.V("C20", "pop3_connection_dropped", cmd=line[:80])
            return
        ok = status.startswith(b"+OK")
        if not ok and not status.startswith(b"-ERR"):
            self.V("C20", "pop3_framing", cmd=line, status=status[:60])
            return
        box = st["inbox"]
        argn = None
        tok_ = line.split()[1] if len(line.split()) > 1 else None
        if tok_ is not None and not re.fullmatch(r"[0-9]+", tok_):
            # not a message number (RFC 1939: decimal digits): whatever Python's int() makes of "+1" or "1_0"
            self.C("c20_invalid_number")
            if ok:
                self.V("C20", "pop3_invalid_number_accepted", cmd=line, status=status[:60].decode("latin-1"))
                if verb == "DELE":
                    st["dele_unknown"] = True
            return
        if verb == "TOP" and op.get("arg2") is not None and not re.fullmatch(r"[0-9]+", str(op["arg2"])):
            self.C("c20_invalid_number")
            if ok:
                self.V("C20", "pop3_invalid_number_accepted", cmd=line[:80], status=status[:60].decode("latin-1"))
            return
        if tok_ is not None and len(tok_) > 12:
            # a number beyond any message count
            self.C("c20_invalid_number")
            if ok:
                self.V("C20", "pop3_invalid_number_accepted", cmd=line[:40] + "...", status=status[:60].decode("latin-1"))
            return
        try:
            argn = int(tok_) if tok_ is not None else None
        except ValueError:
            argn = None
        if verb == "UIDL" and ok:
            pairs = {}
            if lines is not None:
                for ln in lines:
                    a = ln.split()
                    if len(a) == 2 and a[0].isdigit() and a[1].isdigit():
                        pairs[int(a[0])] = int(a[1])
                    else:
                        self.V("C20", "pop3_framing", cmd=line, line=ln[:40])
            else:
                a = status.split()
                if len(a) >= 3 and a[1].isdigit() and a[2].isdigit():
                    pairs[int(a[1])] = int(a[2])
            self._pop_check_uidl(p, pairs, full=lines is not None)
        elif verb == "LIST" and ok:
            sizes = {}
            if lines is not None:
                for ln in lines:
                    a = ln.split()
                    if len(a) == 2 and a[0].isdigit() and a[1].isdigit():
                        sizes[int(a[0])] = int(a[1])
                    else:
                        self.V("C20", "pop3_framing", cmd=line, line=ln[:40])
            else:
                a = status.split()
                if len(a) >= 3 and a[1].isdigit() and a[2].isdigit():
                    sizes[int(a[1])] = int(a[2])
            self._pop_check_sizes(p, sizes, line)
        elif verb == "STAT" and ok:
            a = status.split()
            if len(a) >= 3 and a[1].isdigit() and a[2].isdigit():
                cnt, tot = int(a[1]), int(a[2])
                if st["uidl"] is not None:
                    self.C("c20_stat")
                    live = [n for n in st["uidl"] if n not in st["dele"]]
                    if cnt != len(live):
                        self.V("C20", "pop3_snapshot_changed", cmd="STAT", count=cnt, expected=len(live))
                    elif all(n in st["size"] for n in live) and tot != sum(st["size"][n] for n in live):
                        self.V("C20", "pop3_size_mismatch", cmd="STAT", total=tot, expected=sum(st["size"][n] for n in live))
        elif verb in ("RETR", "TOP") and ok and lines is not None and argn is not None:
            content = b"".join(ln + b"\r\n" for ln in lines)
            if verb == "RETR":
                self._pop_check_retr(p, argn, status, content, line)
            else:
                tok = corpus.tok_of(content)
                exp = self._pop_tok(p, argn)
                self.C("c20_top")
                if tok is not None and exp is not None and tok != exp:
                    self.V("C20", "pop3_retr_wrong_message", cmd=line, expected_tok=exp, got_tok=tok)
        elif verb == "DELE":
            if ok and argn is not None:
                self.C("c20_dele")
                if argn in st["dele"]:
                    self.V("C20", "pop3_double_dele_ok", n=argn)
                if st["uidl"] is not None and argn not in st["uidl"]:
                    self.V("C20", "pop3_invalid_number_ok", cmd=line)
                st["dele"].add(argn)
        elif verb == "RSET" and ok:
            st["dele"] = set()
        if verb in ("RETR", "TOP", "DELE", "LIST", "UIDL") and argn is not None and ok and st["uidl"] is not None and argn not in st["uidl"]:
            self.V("C20", "pop3_invalid_number_ok", cmd=line)

    def _pop_tok(self, p, n):
        st = p.state
        if st["uidl"] is None or n not in st["uidl"]:
            return None
        uid = st["uidl"][n]
        return st["inbox"].ledger.get(uid)

    def _pop_check_uidl(self, p, pairs, full):
        st = p.state
        box = st["inbox"]
        self.C("c20_uidl")
        if st["uidl"] is None and full:
            st["uidl"] = dict(pairs)
            nums = sorted(pairs)
            if nums != list(range(1, len(nums) + 1)) and not st["dele"]:
                self.V("C20", "pop3_framing", cmd="UIDL", why="numbers not 1..n", nums=nums[:20])
            # learn the UIDs of delivered-but-never-probed messages from the
            # listing when it lines up with the model's list
            if len(nums) == len(box.msgs) and all(m.uid is None or m.uid == pairs[i + 1] for i, m in enumerate(box.msgs)):
                for i, m in enumerate(box.msgs):
                    if m.uid is None:
                        m.uid = pairs[i + 1]
            # UIDL values are IMAP UIDs of INBOX messages: ascending, and each
            # either already revealed over IMAP or newer than all of those
            us = [pairs[n] for n in nums]
            if any(b <= a for a, b in zip(us, us[1:])):
                self.V("C20", "pop3_uidl_not_imap_uid", why="not ascending", uids=us)
            for n, uid in pairs.items():
                if self.probe_p >= 1.0 and uid not in box.ledger and box.by_uid(uid) is None and uid <= box.max_uid and not box.uncertain and box.uidnext_told and uid >= box.uidnext_told:
                    self.V("C20", "pop3_uidl_not_imap_uid", n=n, uid=uid, known=sorted(box.ledger)[:20])
            return
        if st["uidl"] is None:
            return
        for n, uid in pairs.items():
            if n in st["dele"]:
                self.V("C20", "pop3_deleted_listed", n=n)
            elif st["uidl"].get(n) != uid:
                self.V("C20", "pop3_snapshot_changed", cmd="UIDL", n=n, was=st["uidl"].get(n), now=uid)
        if full:
            missing = [n for n in st["uidl"] if n not in pairs and n not in st["dele"]]
            if missing:
                self.V("C20", "pop3_snapshot_changed", cmd="UIDL", missing=missing)

    def _pop_check_sizes(self, p, sizes, line):
        st = p.state
        self.C("c20_sizes")
        for n, sz in sizes.items():
            if n in st["dele"]:
                self.V("C20", "pop3_deleted_listed", n=n)
            if n in st["size"] and st["size"][n] != sz:
                self.V("C20", "pop3_snapshot_changed", cmd=line, n=n, was=st["size"][n], now=sz)
            st["size"].setdefault(n, sz)
            got = st["retr"].get(n)
            if got is not None and got != sz:
                self.V("C20", "pop3_size_mismatch", cmd=line, n=n, listed=sz, retr_octets=got)

    def _pop_check_retr(self, p, n, status, content, line):
        st = p.state
        self.C("c20_retr")
        tok = corpus.tok_of(content)
        exp = self._pop_tok(p, n)
        if tok is not None and exp is not None and tok != exp:
            self.V("C20", "pop3_retr_wrong_message", cmd=line, n=n, uid=st["uidl"].get(n), expected_tok=exp, got_tok=tok)
            return
        a = status.split()
        octets = len(content)
        st["retr"][n] = octets
        if len(a) >= 2 and a[1].isdigit():
            self.C("c20_retr_size")
            if int(a[1]) != octets:
                self.V("C20", "pop3_size_mismatch", cmd=line, announced=int(a[1]), delivered=octets)
        if n in st["size"] and st["size"][n] != octets:
            self.V("C20", "pop3_size_mismatch", cmd=line, listed=st["size"][n], delivered=octets)
        # same bytes as IMAP BODY[] of that UID
        if st["uidl"] is not None and n in st["uidl"]:
            box = st["inbox"]
            ref = self.refbody.get((box.name, box.uvv, st["uidl"][n]))
            if ref is not None:
                self.C("c20_retr_equals_imap")
                # (line ends apart: POP3 lines end with CRLF, an IMAP literal carries whatever the file has)
                if re.sub(rb"(?<!\r)\n", b"\r\n", ref[0]) != re.sub(rb"(?<!\r)\n", b"\r\n", content):
                    self.V("C20", "pop3_retr_differs_from_imap", cmd=line, uid=st["uidl"][n], imap_len=len(ref[0]), pop_len=len(content))

    async def op_pop_quit(self, op):
        p = self.pops.get(op["s"])
        if p is None or p.lost:
            return
        st = p.state
        status, _, closed = await p.command("QUIT")
        box = st["inbox"]
        ok = status is not None and status.startswith(b"+OK")
        if ok and st["uidl"] is not None and any(n not in st["uidl"] for n in st["dele"]):
            box.uncertain = True  # marked before we ever saw its UIDL entry
        if ok and st["dele"] and any(m.uid is None for m in box.msgs):
            box.uncertain = True  # cannot tell which model entries the UIDs name
        if ok and st["uidl"] is not None and self.compare and not box.uncertain:
            uids = {st["uidl"][n] for n in st["dele"] if n in st["uidl"]}
            self.apply_expunge(box, uids)
            self.others_changed(box, None)
            if uids:
                self.ctx.probe("pop3_quit_removed")
        elif ok and st["dele"]:
            box.uncertain = True
        await asyncio.sleep(0.1)
        p.close()
        self.pops.pop(op["s"], None)
        self.blame = ("C20", "pop3_quit_wrong_set")
        try:
            await self.after_mutation_pop(box)
        finally:
            self.blame = None

    async def after_mutation_pop(self, box):
        if self.compare:
            await self.compare_box(box, why="pop3")

    async def op_pop_drop(self, op):
        p = self.pops.get(op["s"])
        if p is None:
            return
        st = p.state
        if op.get("reset"):
            p.abort()
            self.env.fired("client_reset")
        else:
            p.close()
            self.env.fired("client_eof")
        self.pops.pop(op["s"], None)
        await asyncio.sleep(0.2)
        self.blame = ("C20", "pop3_deleted_without_quit")
        try:
            await self.after_mutation_pop(st["inbox"])
        finally:
            self.blame = None


for _n, _f in list(Pop3Ops.__dict__.items()):
    if callable(_f) and not _n.startswith("__"):
        setattr(Interp, _n, _f)


# ---------------------------------------------------------------------------
# C07 content half: ENVELOPE strings decode back to the header values
#
def _unfold_headers(hdr_bytes):
    """Independent minimal RFC 5322 header reader: name -> list of raw values
    (unfolded, leading/trailing whitespace stripped)."""
    out = {}
    cur = None
    for line in hdr_bytes.replace(b"\r\n", b"\n").split(b"\n"):
        if not line:
            break
        if line[:1] in (b" ", b"\t") and cur is not None:
            out[cur][-1] += b" " + line.strip()
            continue
        name, sep, val = line.partition(b":")
        if not sep:
            cur = None
            continue
        cur = name.strip().lower()
        out.setdefault(cur, []).append(val.strip())
    return out


def _norm_ws(b):
    return b" ".join(b.split())


_EW = re.compile(rb"=\?[^?\s]+\?[bBqQ]\?[^?\s]*\?=")


def _skeleton(b):
    """ASCII skeleton of a header value: encoded words and 8-bit bytes are
    charset business (left open); quotes, backslashes and the rest are not."""
    words = []
    for w in b.split():
        if _EW.search(w) or any(c < 0x20 or c >= 0x7F for c in w):
            continue
        words.append(w)
    return b" ".join(words)


def _decode_2047(b):
    try:
        from email.header import decode_header, make_header

        return str(make_header(decode_header(b.decode("latin-1"))))
    except Exception:
        return None


class EnvelopeOps:
    async def op_envelope(self, op):
        """FETCH (UID ENVELOPE BODY.PEEK[HEADER]) and compare strings."""
        sess, ms = self.sess(op)
        if sess is None or ms.dead or ms.selected is None:
            return
        await self.ensure_known(sess, ms)
        txt, uids, valid = self.resolve_set(sess, ms, op)
        r = await self.run_cmd(sess, ms, f"{'UID ' if op.get('uid') else ''}FETCH {txt} (UID ENVELOPE BODY.PEEK[] BODYSTRUCTURE RFC822.SIZE)")
        if r.status is None or not r.ok:
            return
        for u in r.untagged:
            if u.kind != "FETCH":
                continue
            try:
                it = fetch_items(u)
            except Exception:
                continue
            env = it.get("ENVELOPE")
            hdr = it.get("BODY[]")
            if not isinstance(env, list) or hdr is None:
                continue
            self.C("c07_envelope")
            if len(env) != 10:
                self.V("C07", "envelope_shape", n=u.num, items=len(env))
                continue
            h = _unfold_headers(bytes(hdr) if isinstance(hdr, Lit) else str(hdr).encode("latin-1"))

            def sval(x):
                if isinstance(x, Lit):
                    return bytes(x)
                if isinstance(x, QStr):
                    return x.encode("latin-1")
                if isinstance(x, Atom) and x.upper() == "NIL":
                    return None
                return str(x).encode("latin-1")

            for idx, name in ((1, b"subject"), (9, b"message-id")):
                got = sval(env[idx])
                want = h.get(name, [None])[0]
                ok = False
                if want is None or want == b"":
                    ok = got in (None, b"")
                elif got is not None:
                    g = _norm_ws(got)
                    w = _norm_ws(want)
                    if _skeleton(g) == _skeleton(w):
                        continue
                    cands = {w}
                    d = _decode_2047(w)
                    if d is not None:
                        for enc in ("latin-1", "utf-8"):
                            try:
                                cands.add(_norm_ws(d.encode(enc)))
                            except Exception:
                                pass
                    # asimap may re-encode non latin-1 text as RFC 2047
                    gd = _decode_2047(g)
                    ok = g in cands or (gd is not None and d is not None and _norm_ws(gd.encode("utf-8", "replace")) == _norm_ws(d.encode("utf-8", "replace")))
                if not ok:
                    self.V("C07", "envelope_field_differs", field=name.decode(), header=want, envelope=got, n=u.num)


for _n, _f in list(EnvelopeOps.__dict__.items()):
    if callable(_f) and not _n.startswith("__"):
        setattr(Interp, _n, _f)
