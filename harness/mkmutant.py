"""Hand-port a mutant onto the current /repo: mkmutant.py <out.patch> <file> then OLD/NEW pairs read from a JSON list on stdin
[[old, new], ...] (each old must occur exactly once)."""
import json, os, shutil, subprocess, sys
out, rel = sys.argv[1], sys.argv[2]
pairs = json.load(sys.stdin)
S = "/dev/shm/mkmutant"
shutil.rmtree(S, ignore_errors=True)
os.makedirs(os.path.join(S, "a", os.path.dirname(rel)))
os.makedirs(os.path.join(S, "b", os.path.dirname(rel)))
src = open(os.path.join("/repo", rel)).read()
new = src
for old, rep in pairs:
    assert new.count(old) == 1, (new.count(old), old[:80])
    new = new.replace(old, rep)
open(os.path.join(S, "a", rel), "w").write(src)
open(os.path.join(S, "b", rel), "w").write(new)
d = subprocess.run(["diff", "-u", os.path.join("a", rel), os.path.join("b", rel)], cwd=S, capture_output=True, text=True).stdout
mode = "a" if os.environ.get("APPEND") else "w"
open(out, mode).write(d)
shutil.rmtree(S, ignore_errors=True)
print("wrote", out, len(d.splitlines()), "lines")
