"""Install a confirmed independent seeded change into /verif/seeded/<id>/.
usage: install_seed.py <id> <property> <checks,comma> <what> <needs>"""
import json, os, shutil, subprocess, sys
i, prop, checks, what, needs = sys.argv[1:6]
src = f"/tmp/{i}-work"
dst = f"/verif/seeded/{i}"
os.makedirs(dst, exist_ok=True)
shutil.copy(src + "/patch.diff", dst + "/patch.diff")
shutil.copy(src + "/demo.py", dst + "/demo.py")
head = subprocess.check_output(["git", "-C", "/repo", "rev-parse", "--short", "HEAD"], text=True).strip()
json.dump({"id": i, "property": prop, "checks": checks.split(","),
           "written_by": "independent sub-agent given only the property text and a scratch worktree",
           "what": what, "needs_to_manifest": needs,
           "confirmed": "scratch worktree of /repo HEAD: demo.py exit 0 without the patch, exit 1 with it; pytest (known always-fail tests deselected) passes with the patch",
           "base_commit": head}, open(dst + "/meta.json", "w"), indent=1)
print("installed", dst)
