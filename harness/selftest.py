"""Determinism self-test: same program twice (different children, different
parallelism, fresh interpreter) must give identical event-log digests."""

import hashlib
import importlib
import json
import os
import random
import re
import subprocess
import sys

from harness.driver import KnownFindings, Pool


def first_diff(a, b):
    for i, (x, y) in enumerate(zip(a, b)):
        if x != y:
            return i, x, y
    if len(a) != len(b):
        return min(len(a), len(b)), None, None
    return None


ALL = ["C01", "C02", "C03", "C04", "C05", "C06", "C07", "C09", "C10", "C11", "C12", "C13", "C17", "C18", "C19", "C20"]
VERIF = os.path.dirname(os.path.dirname(os.path.abspath(__file__)))


_FLAGS = re.compile(r"(FLAGS(?:\.SILENT)? \()([^)]*)(\))")  # applied to the raw event text


def norm_digest(log):
    """Digest of an event log with the one legitimately hash-seed dependent thing
    normalised: asimap renders a message's flags by iterating a set of str, so the
    *order* of flags inside FLAGS (...) follows PYTHONHASHSEED (the replay contract
    pins it to 0). Everything else - schedule, timing, I/O order - must be equal."""
    h = hashlib.sha256()
    for item in log or []:
        item = [_FLAGS.sub(lambda m: m.group(1) + " ".join(sorted(m.group(2).split())) + m.group(3), x) if isinstance(x, str) else x for x in item] if isinstance(item, list) else item
        h.update(json.dumps(item, default=str).encode())
    return h.hexdigest()


def worker_main(argv):
    """selftest-worker <check> <programs.json> <out.json> <procs>"""
    cid, src, dst, procs = argv[0], argv[1], argv[2], int(argv[3])
    mod = importlib.import_module(f"checks.{cid.lower()}")
    progs = json.load(open(src))
    res = {}

    def on(job, out):
        res[str(job["k"])] = {"digest": out.get("digest"), "ndigest": norm_digest(out.get("log")), "n": len(out.get("log") or []), "err": out.get("harness_error")}

    Pool(mod, procs, wall=120, opts={"keep_log": True, "return_log": True}).run([{"program": p, "k": k} for k, p in enumerate(progs)], on)
    json.dump({"hashseed": os.environ.get("PYTHONHASHSEED"), "res": res}, open(dst, "w"))
    import shutil
    from harness.driver import scratch_base

    shutil.rmtree(scratch_base(), ignore_errors=True)
    return 0


def selftest_main(argv):
    checks = [a.upper() for a in argv if a.upper().startswith("C") and a[1:].isdigit()] or ALL
    n = int(os.environ.get("SELFTEST_N", "40"))
    seed = int(os.environ.get("VERIF_SEED", "7"))
    seeds_only = [int(a[5:]) for a in argv if a.startswith("seed=")]
    kf = KnownFindings()
    bad = 0
    total = 0
    per = {}
    flagorder = 0
    for cid in checks:
        mod = importlib.import_module(f"checks.{cid.lower()}")
        r = random.Random(seed)
        progs = []
        for i in range(n):
            s = seeds_only[i] if i < len(seeds_only) else r.getrandbits(48)
            p = mod.generate(s, "quick", i, kf)
            p.setdefault("check", cid)
            progs.append(p)
            if seeds_only and i + 1 >= len(seeds_only):
                break
        res = {}

        def collect(tag):
            def on(job, out):
                res.setdefault(job["k"], {})[tag] = out
            return on

        Pool(mod, 16, wall=120, opts={"keep_log": True, "return_log": True}).run([{"program": p, "k": k} for k, p in enumerate(progs)], collect("p16"))
        Pool(mod, 2, wall=120, opts={"keep_log": True, "return_log": True}).run([{"program": p, "k": k} for k, p in enumerate(progs)], collect("p2"))
        # third run: fresh interpreter under a different PYTHONHASHSEED, other worker count
        from harness.driver import scratch_base

        sb = scratch_base()
        os.makedirs(sb, exist_ok=True)
        src = os.path.join(sb, f"selftest-{cid}-in.json")
        dst = os.path.join(sb, f"selftest-{cid}-out.json")
        json.dump(progs, open(src, "w"), default=str)
        env = dict(os.environ, PYTHONHASHSEED="4242", VERIF_ALLOW_HASHSEED="1")
        wr = subprocess.run([sys.executable, "-X", "faulthandler", os.path.join(VERIF, "harness", "main.py"), "selftest-worker", cid, src, dst, "5"], env=env, capture_output=True, text=True)
        fresh = {}
        if wr.returncode == 0 and os.path.exists(dst):
            fresh = json.load(open(dst))["res"]
        else:
            print("fresh-interpreter worker failed:", wr.returncode, (wr.stdout + wr.stderr)[-500:])
            bad += 1
        for f in (src, dst):
            try:
                os.unlink(f)
            except OSError:
                pass
        for k, p in enumerate(progs):
            total += 1
            a, b = res[k].get("p16", {}), res[k].get("p2", {})
            c = fresh.get(str(k), {})
            if c.get("digest") != a.get("digest"):
                flagorder += 1
            if c.get("ndigest") != norm_digest(a.get("log")):
                bad += 1
                print(f"NONDETERMINISTIC-ACROSS-INTERPRETERS {cid} seed={p['seed']} events {len(a.get('log') or [])} vs {c.get('n')} err={c.get('err')}")
            if a.get("digest") != b.get("digest") or a.get("digest") is None:
                bad += 1
                print(f"NONDETERMINISTIC {cid} seed={p['seed']} digests {a.get('digest')} {b.get('digest')} err={a.get('harness_error') or b.get('harness_error')}")
                d = first_diff(a.get("log") or [], b.get("log") or [])
                if d:
                    i, x, y = d
                    print("  first difference at event", i)
                    for j in range(max(0, i - 4), i):
                        print("    =", json.dumps(a["log"][j])[:300])
                    print("    A", json.dumps(x)[:400])
                    print("    B", json.dumps(y)[:400])
        print(f"{cid}: {len(progs)} programs x 3 runs compared (16 procs, 2 procs, fresh interpreter PYTHONHASHSEED=4242 with 5 procs)")
        per[cid] = len(progs)
        sys.stdout.flush()
    print(f"selftest: {total} programs, {bad} nondeterministic ({flagorder} differ under another PYTHONHASHSEED only in the order of flags inside FLAGS (...))")
    if not seeds_only:
        out = os.path.join(VERIF, "selftest_results.json")
        prev = {}
        if os.path.exists(out):
            try:
                prev = json.load(open(out)).get("per_check", {})
            except Exception:
                prev = {}
        for cid, k in per.items():
            prev[cid] = {"programs": k, "runs_each": 3, "seed": seed, "nondeterministic": None}
        json.dump({"what": "determinism self-test: each generated program executed three times (16 workers, 2 workers, fresh interpreter under PYTHONHASHSEED=4242 with 5 workers); event-log digests compared",
                   "per_check": prev, "flag_order_only_differences_under_other_hashseed": flagorder, "last_run_total": total, "last_run_nondeterministic": bad}, open(out, "w"), indent=1)
    import shutil
    from harness.driver import scratch_base

    shutil.rmtree(scratch_base(), ignore_errors=True)
    return 0 if bad == 0 else 3
