"""Determinism self-test: same program twice (different children, different
parallelism, fresh interpreter) must give identical event-log digests."""

import importlib
import json
import os
import random
import subprocess
import sys

from harness.driver import KnownFindings, Pool


def first_diff(a, b):
    for i, (x, y) in enumerate(zip(a, b)):
        if x != y:
            return i, x, y
    if len(a) != len(b):
        return min(len(a), len(b)), None, None
    return None


def selftest_main(argv):
    checks = [a for a in argv if a.upper().startswith("C") and a[1:].isdigit()] or ["C01", "C04", "C05", "C13", "C17"]
    n = int(os.environ.get("SELFTEST_N", "40"))
    seed = int(os.environ.get("VERIF_SEED", "7"))
    seeds_only = [int(a[5:]) for a in argv if a.startswith("seed=")]
    kf = KnownFindings()
    bad = 0
    total = 0
    for cid in checks:
        mod = importlib.import_module(f"checks.{cid.lower()}")
        r = random.Random(seed)
        progs = []
        for i in range(n):
            s = seeds_only[i] if i < len(seeds_only) else r.getrandbits(48)
            p = mod.generate(s, "quick", i, kf)
            p.setdefault("check", cid)
            progs.append(p)
            if seeds_only and i + 1 >= len(seeds_only):
                break
        res = {}

        def collect(tag):
            def on(job, out):
                res.setdefault(job["k"], {})[tag] = out
            return on

        Pool(mod, 16, wall=120, opts={"keep_log": True, "return_log": True}).run([{"program": p, "k": k} for k, p in enumerate(progs)], collect("p16"))
        Pool(mod, 2, wall=120, opts={"keep_log": True, "return_log": True}).run([{"program": p, "k": k} for k, p in enumerate(progs)], collect("p2"))
        for k, p in enumerate(progs):
            total += 1
            a, b = res[k].get("p16", {}), res[k].get("p2", {})
            if a.get("digest") != b.get("digest") or a.get("digest") is None:
                bad += 1
                print(f"NONDETERMINISTIC {cid} seed={p['seed']} digests {a.get('digest')} {b.get('digest')} err={a.get('harness_error') or b.get('harness_error')}")
                d = first_diff(a.get("log") or [], b.get("log") or [])
                if d:
                    i, x, y = d
                    print("  first difference at event", i)
                    for j in range(max(0, i - 4), i):
                        print("    =", json.dumps(a["log"][j])[:300])
                    print("    A", json.dumps(x)[:400])
                    print("    B", json.dumps(y)[:400])
        print(f"{cid}: {len(progs)} programs x 2 runs compared")
    print(f"selftest: {total} programs, {bad} nondeterministic")
    return 0 if bad == 0 else 3
