"""Sensitivity self-test: apply each known property-breaking patch to a scratch
copy of /repo and confirm the relevant quick check reports a violation.

  ./run mutants [name-substring ...]     (budget per check: MUTANT_BUDGET_S, default 60)

Patches: /verif/mutants/*.patch (reverse of every `fix:` commit) and
/verif/seeded/<id>/patch.diff (changes written by independent sub-agents).
Results are written to /verif/mutants/results.json.
"""

import json
import os
import shutil
import subprocess
import sys
import time

VERIF = os.path.dirname(os.path.dirname(os.path.abspath(__file__)))


def props_for(name, kf):
    commit = name.replace("revert-", "").replace(".patch", "")
    out = []
    for e in kf.get("findings", []):
        if e.get("commit") == commit and e["property"] not in out:
            out.append(e["property"])
    return out


def mutants_main(argv):
    budget = os.environ.get("MUTANT_BUDGET_S", "60")
    kf = json.load(open(os.path.join(VERIF, "known_findings.json")))
    extra = {}
    idx = os.path.join(VERIF, "mutants", "index.json")
    if os.path.exists(idx):
        extra = json.load(open(idx))
    items = []
    mdir = os.path.join(VERIF, "mutants")
    for f in sorted(os.listdir(mdir)):
        if f.endswith(".patch"):
            props = extra.get(f) or props_for(f, kf)
            items.append((f, os.path.join(mdir, f), props))
    sdir = os.path.join(VERIF, "seeded")
    if os.path.isdir(sdir):
        for d in sorted(os.listdir(sdir)):
            p = os.path.join(sdir, d, "patch.diff")
            m = os.path.join(sdir, d, "meta.json")
            if os.path.exists(p) and os.path.exists(m):
                meta = json.load(open(m))
                if meta.get("masked_by") and not argv:
                    continue  # no longer breaks the property on the current tree (see meta.json); run only when named
                props = meta.get("checks") or [meta.get("property")]
                items.append((f"seeded/{d}", p, props))
    if argv:
        items = [it for it in items if any(a in it[0] for a in argv)]
    base = "/dev/shm" if os.path.isdir("/dev/shm") else "/var/tmp"
    scratch = os.path.join(base, f"asimap-mutants-{os.getpid()}")
    results = []
    try:
        for name, patch, props in items:
            shutil.rmtree(scratch, ignore_errors=True)
            os.makedirs(scratch)
            repo = os.path.join(scratch, "repo")
            subprocess.run(["rsync", "-a", "--exclude", ".git", "--exclude", "__pycache__", "/repo/", repo + "/"], check=True)
            ap = subprocess.run(["patch", "-p1", "-s", "-d", repo, "-i", patch], capture_output=True, text=True)
            if ap.returncode != 0:
                results.append({"mutant": name, "applied": False, "error": (ap.stdout + ap.stderr)[-300:]})
                print(f"{name}: PATCH DOES NOT APPLY")
                continue
            row = {"mutant": name, "applied": True, "checks": {}}
            for prop in props:
                env = dict(os.environ, VERIF_REPO=repo, VERIF_BUDGET_S=budget, VERIF_EVIDENCE_DIR=os.path.join(scratch, "ev"),
                           VERIF_REPLAY_DIR=os.path.join(scratch, "rp"))
                t0 = time.time()
                r = subprocess.run([os.path.join(VERIF, "run"), "check", prop, "--tier", "quick"], capture_output=True, text=True, env=env)
                rules = sorted({ln.split("rule=")[1].split()[0] for ln in r.stdout.splitlines() if "rule=" in ln})
                row["checks"][prop] = {"exit": r.returncode, "detected": r.returncode == 1, "rules": rules, "wall_s": round(time.time() - t0, 1)}
                print(f"{name}: {prop} exit={r.returncode} {'DETECTED ' + ','.join(rules) if r.returncode == 1 else 'MISSED'} ({time.time() - t0:.0f}s)")
                sys.stdout.flush()
            row["detected"] = any(c["detected"] for c in row["checks"].values())
            results.append(row)
    finally:
        shutil.rmtree(scratch, ignore_errors=True)
    out = os.path.join(VERIF, "mutants", "results.json")
    prev = []
    if argv and os.path.exists(out):
        prev = [r for r in json.load(open(out)) if not any(r["mutant"] == x["mutant"] for x in results)]
    with open(out, "w") as f:
        json.dump(prev + results, f, indent=1)
    det = sum(1 for r in results if r.get("detected"))
    print(f"mutants: {det}/{len(results)} detected")
    return 0
