"""
Per-run context created inside the forked child: run directory, SimEnv,
Net, World, buggify points, result assembly.
"""

import gc
import hashlib
import logging
import os
import shutil
import sys

from sim.net import Net
from sim.seams import FS, SimEnv, derive_seed, install_process_hooks
from sim.world import World

_COUNTER = [0]


def prepare_parent():
    """Import everything once in the parent so that forks are cheap."""
    repo = os.environ.get("VERIF_REPO", "/repo")
    if repo not in sys.path:
        sys.path.insert(0, repo)
    logging.disable(logging.CRITICAL)
    import asimap.client  # noqa: F401
    import asimap.hashers
    import asimap.mbox  # noqa: F401
    import asimap.pop3_client  # noqa: F401
    import asimap.pop3_server  # noqa: F401
    import asimap.server  # noqa: F401
    import asimap.user_server  # noqa: F401

    asimap.hashers.PBKDF2PasswordHasher.iterations = 1
    install_process_hooks()


class RunCtx:
    def __init__(self, program, opts):
        from harness.driver import scratch_base

        self.program = program
        self.opts = opts
        seed = program.get("seed", 0)
        base = scratch_base()
        self.root = os.path.join(base, f"run-{os.getpid():08d}")  # constant length: paths may end up inside commands
        shutil.rmtree(self.root, ignore_errors=True)
        os.makedirs(self.root)
        lat = program.get("latency") or {}
        self.env = SimEnv(
            seed, self.root, latency={k: v for k, v in lat.items() if k in ("exec", "db", "net")},
            step_cap=program.get("step_cap", 400_000), keep_log=bool(opts.get("keep_log")),
        )
        self.env.install()
        self.net = Net(self.env)
        self.net.install()
        self.world = World(self.env, self.net)
        RunCtx.current = self
        self.in_pack = 0
        self.jail = os.path.join(self.root, "jail")
        self.probes = {}
        self.signature = hashlib.sha256()
        self.state_hashes = set()
        self.nontrivial = False
        self._install_knobs(program.get("knobs") or {})
        self._install_reach_probes()
        self._install_buggify(program.get("buggify") or {})

    def probe(self, name, n=1):
        self.probes[name] = self.probes.get(name, 0) + n

    def sig(self, *parts):
        self.signature.update(repr(parts).encode())

    def _install_reach_probes(self):
        """White-box *counters* only (never oracles): did the rare paths run?"""
        import asimap.client as client
        import asimap.db as db
        import asimap.mbox as mbox

        ctx = self
        if getattr(mbox.Mailbox, "_sim_probed", False):
            return
        mbox.Mailbox._sim_probed = True
        orig_pack = mbox.Mailbox._pack_if_necessary

        async def pack(self_):
            will = not (self_.num_msgs < self_.folder_size_pack_limit or not self_.msg_keys or self_.num_msgs / self_.msg_keys[-1] > self_.folder_ratio_pack_limit)
            if will:
                RunCtx.current.in_pack += 1
            try:
                r = await orig_pack(self_)
            finally:
                if will:
                    RunCtx.current.in_pack -= 1
            if r:
                RunCtx.current.probe("pack_ran")
            return r

        mbox.Mailbox._pack_if_necessary = pack
        orig_disp = mbox.Mailbox._dispatch_or_pend_notifications

        async def disp(self_, notifications, dont_notify=None):
            if notifications and any(not c.idling and c is not dont_notify for c in self_.clients.values()):
                n = notifications if isinstance(notifications, list) else [notifications]
                if any("EXPUNGE" in str(x) for x in n):
                    RunCtx.current.probe("expunge_pended_to_session")
                else:
                    RunCtx.current.probe("fetch_pended_to_session")
            return await orig_disp(self_, notifications, dont_notify=dont_notify)

        mbox.Mailbox._dispatch_or_pend_notifications = disp
        orig_ccp = mbox.Mailbox.command_can_proceed

        async def ccp(self_, imap_cmd):
            if self_.would_conflict(imap_cmd):
                RunCtx.current.probe("command_waited_for_conflict")
            return await orig_ccp(self_, imap_cmd)

        mbox.Mailbox.command_can_proceed = ccp
        orig_policy = db.Database._execute_retry_policy

        def policy(self_, info):
            r = orig_policy(self_, info)
            if r[0] is False:
                RunCtx.current.probe("retry_policy_absorbed_error")
            return r

        db.Database._execute_retry_policy = policy

    def _install_knobs(self, knobs):
        import asimap.mbox as mbox

        if knobs.get("pack_limit") is not None:
            mbox.Mailbox.FOLDER_SIZE_PACK_LIMIT = knobs["pack_limit"]
        if knobs.get("pack_ratio") is not None:
            mbox.Mailbox.FOLDER_RATIO_PACK_LIMIT = knobs["pack_ratio"]
        if knobs.get("folder_scan_every") is not None:
            # the periodic scan for new folders (90 s in production) runs far more often: whatever it can collide with
            # (a RENAME in progress, a DELETE) gets its chance
            import asimap.user_server as us_

            us_.TIME_BETWEEN_FOLDER_SCANS = float(knobs["folder_scan_every"])
        if knobs.get("sock_buf"):
            # a small socket send buffer: the server's drain() really waits for the (slow) client
            import sim.net as simnet

            simnet.HIGH_WATER = int(knobs["sock_buf"])
            simnet.LOW_WATER = max(1, int(knobs["sock_buf"]) // 4)
        if knobs.get("max_input") is not None:
            import asimap.server as server
            import asimap.user_server as us

            server.MAX_INPUT_SIZE = knobs["max_input"]
            us.MAX_INPUT_SIZE = knobs["max_input"]
            try:
                import asimap.pop3_server as p3

                if hasattr(p3, "MAX_INPUT_SIZE"):
                    p3.MAX_INPUT_SIZE = knobs["max_input"]
            except Exception:
                pass

    def _install_buggify(self, b):
        env = self.env
        loop = env.loop
        rng = env.rng("buggify")
        gc_every = b.get("gc_every")
        stall_p = b.get("stall_p", 0.0)
        stall_max = b.get("stall_max", 0.0)
        if gc_every:
            nxt = [rng.randint(1, gc_every)]

            def gc_hook():
                nxt[0] -= 1
                if nxt[0] <= 0:
                    nxt[0] = rng.randint(1, gc_every)
                    gc.collect()
                    env.fired("gc")

            loop.step_hooks.append(gc_hook)
        if stall_p:

            def stall_hook():
                if rng.random() < stall_p:
                    loop._now += rng.random() * stall_max
                    env.fired("timer_late")

            loop.step_hooks.append(stall_hook)
        cpu_p = b.get("cpu_p", 0.0)
        if cpu_p:
            # Under virtual time computation is free, so "yield if this loop has been running for more
            # than 50 ms" points (Mailbox.fetch, search) never fire. Here reading the monotonic clock
            # sometimes costs CPU time: the clock moves on inside a step, and those yields happen.
            import time as _time

            r3 = env.rng("cpu")
            cpu_max = b.get("cpu_max", 0.06)

            def mono():
                if r3.random() < cpu_p:
                    loop._now += r3.random() * cpu_max
                    env.fired("cpu_time")
                return loop._now

            _time.monotonic = mono
        p_ro = b.get("db_readonly_p", 0.0)
        if p_ro:
            r2 = env.rng("dbfault")
            state = {"consec": 0, "on": False}
            self.db_fault_state = state

            def plan(name, sql):
                if not state["on"] or name != "execute":
                    return None
                s = sql.lstrip().lower()
                if not (s.startswith("insert") or s.startswith("update") or s.startswith("delete")):
                    return None
                if state["consec"] < 3 and r2.random() < p_ro:
                    state["consec"] += 1
                    env.fired("db_readonly_transient")
                    import sqlite3

                    return sqlite3.OperationalError("attempt to write a readonly database")
                state["consec"] = 0
                return None

            env.db_fault_plan = plan

    def result(self, extra=None):
        env = self.env
        w = self.world
        res = {
            "violations": w.violations,
            "steps": env.loop.steps,
            "sim_seconds": round(env.vnow(), 3),
            "faults": env.faults_fired,
            "rules": w.rules,
            "stats": env.stats,
            "probes": self.probes,
            "digest": env.log.digest(),
            "signature": self.signature.hexdigest()[:16],
            "nontrivial": self.nontrivial,
            "state_hashes": sorted(self.state_hashes)[:200],
            "harness_notes": env.harness_errors[:5],
            "unhandled": getattr(env.loop, "unhandled", [])[:5],
        }
        if self.opts.get("transcript"):
            res["transcript"] = w.transcript
        if self.opts.get("return_log"):
            res["log"] = env.log.items
        if extra:
            res.update(extra)
        return res

    def cleanup(self):
        FS.root = None
        shutil.rmtree(self.root, ignore_errors=True)
