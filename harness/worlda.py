"""Shared child-side executor for interpreter-based (World A) checks."""

import asyncio

from harness.driver import KnownFindings
from harness.interp import Interp
from harness.runctx import RunCtx
from sim.loop import SimQuiescent, StepLimit

REAL = [
    "asimap.user_server (IMAPUserServer.new/run, IMAPClientProxy)", "asimap.client.Authenticated", "asimap.mbox", "asimap.mh",
    "asimap.db", "asimap.parse", "asimap.fetch", "asimap.search", "asimap.generator", "asimap.pop3_client", "aiosqlite (Connection/Cursor)",
    "sqlite3", "aiofiles", "aioretry", "stdlib mailbox/email", "asyncio streams, locks, queues, timeouts, TaskGroup, base_events.Server",
]
STUB = [
    "event loop selector + clock (SimLoop, virtual time)", "kernel sockets/TLS (SimTransport/Pipe)", "threads (aiosqlite worker, default executor -> simulated FIFO/seeded workers)",
    "front-end process (harness speaks its {len}\\n framing)", "file mtimes (virtual, audit hook)", "logging (disabled)", "Sentry (never initialised)",
]
ASSUMPTIONS = [
    "asyncio ready queue is FIFO; schedule freedom is only in I/O completion times (executor, sqlite worker, network, timers, client arrival)",
    "sqlite3 atomic commit and CPython sys.audit coverage of file-system calls are trusted",
    "external MH agent interleaves at event-loop-step granularity",
    "replay contract: program JSON + PYTHONHASHSEED=0 + /repo working tree",
]


LEVEL_NOTE = (
    "Sampling, not proof. Trusted base: the simulator (SimLoop, seams, SimTransport), the independent response tokenizer and the "
    "reference model in /verif; sqlite3 atomic commit; CPython sys.audit coverage. Real code: everything under /repo/asimap used by the "
    "per-user process, aiosqlite (minus its thread), aiofiles, stdlib mailbox/email/asyncio streams. Stubbed: kernel sockets/TLS, threads, "
    "the front-end process, file mtimes (virtual), logging."
)


def base_config(rule, level_text, budget=(75, 900), **kw):
    cfg = {
        "level": "exploration",
        "budget": {"quick": budget[0], "thorough": budget[1]},
        "wall": 60,
        "rule": rule,
        "level_text": level_text,
        "level_note": LEVEL_NOTE,
        "real": REAL,
        "stub": STUB,
        "assumptions": list(ASSUMPTIONS),
    }
    cfg.update(kw)
    return cfg


def execute(program, opts, interp_cls=Interp):
    ctx = RunCtx(program, opts)
    ctx.world.known = KnownFindings()
    it = interp_cls(ctx)
    loop = ctx.env.loop
    half = {}

    def mark():
        if loop.steps == loop.step_cap // 2:
            half["t"] = loop._now

    loop.step_hooks.append(mark)
    extra = {}
    try:
        main = loop.create_task(it.run(), name="interp-main")
        loop.run_until_complete(main)
    except SimQuiescent:
        ctx.world.violate("C10", "deadlock", why="event loop quiescent with the driver still waiting", op=it.op_index, waitfor=it.waitfor_picture())
    except StepLimit:
        if "t" in half and loop._now - half["t"] < 0.5:
            ctx.world.violate("C10", "livelock", why="step cap reached without virtual time advancing", op=it.op_index, waitfor=it.waitfor_picture())
        else:
            extra["harness_error"] = f"step cap {loop.step_cap} reached at virtual t={ctx.env.vnow():.1f}"
    extra["known_hits"] = it.known_hits
    extra["ended_by_known_finding"] = bool(it.ended == "known")
    ops = program.get("ops", [])
    extra["sample"] = {
        "seed": program.get("seed"), "mode": program.get("mode"), "latency": program.get("latency"), "knobs": program.get("knobs"),
        "ops": ops[:25], "results": it.results[:12],
    }
    res = ctx.result(extra)
    ctx.cleanup()
    return res


def simplifications(program):
    """Candidate simplifications tried (in order) after op-list ddmin."""
    out = []
    if any(v != "zero" for v in (program.get("latency") or {}).values()):
        out.append(dict(program, latency={"exec": "zero", "db": "zero", "net": "zero"}))
    if program.get("buggify"):
        out.append(dict(program, buggify={}))
    if program.get("knobs"):
        out.append(dict(program, knobs={}))
    used = {op.get("s") for op in program.get("ops", []) if op.get("s")}
    sess = [s for s in program.get("sessions", []) if s["id"] in used]
    if len(sess) != len(program.get("sessions", [])):
        out.append(dict(program, sessions=sess))
    return out
