"""
Seams: everything nondeterministic that asimap touches is routed through the
simulator from here.  Nothing in /repo is modified; all seams are module
attribute patches installed in the (forked) child that executes one run.

  * clock       time.time / time.monotonic  -> functions of the SimLoop clock
  * randomness  random.seed(), tempfile names
  * executor    loop.run_in_executor -> two seeded events (effect, delivery)
  * sqlite      aiosqlite.Connection worker thread -> simulated FIFO worker
  * fs clock    virtual mtimes under the jail (audit hook + os.stat wrapper)
"""

import hashlib
import os
import random
import sys
import tempfile
import time

from .loop import SimLoop, EventLog

import contextvars

OWNER = contextvars.ContextVar("sim_owner", default="harness")  # which simulated process a task belongs to
CONN = contextvars.ContextVar("sim_conn", default=0)  # which accepted connection a server-side task serves

EPOCH = 1_700_000_000.0 - SimLoop.BASE  # time.time() == EPOCH + loop.time()
REAL_CONTAMINATED = 1_750_000_000.0  # any mtime above this is a real (2026) one

_real_stat = os.stat
_real_lstat = os.lstat
_real_utime = os.utime
_real_time = time.time
_real_monotonic = time.monotonic


def derive_seed(*parts) -> int:
    h = hashlib.sha256(repr(parts).encode()).digest()
    return int.from_bytes(h[:8], "big")


# ---------------------------------------------------------------------------
# latency profiles
#
def _lat_zero(r):
    return 0.0


def _lat_small(r):
    return r.random() * 0.001


def _lat_bimodal(r):
    return 0.0 if r.random() < 0.6 else 0.02 + r.random() * 0.03


def _lat_slow(r):
    return 0.05 + r.random() * 0.25


def _lat_wide(r):
    # occasionally long enough to cross asimap's 10 ms / 100 ms polling sleeps
    x = r.random()
    if x < 0.5:
        return 0.0
    if x < 0.8:
        return r.random() * 0.012
    return r.random() * 0.15


LATENCY = {
    "zero": _lat_zero,
    "small": _lat_small,
    "bimodal": _lat_bimodal,
    "slow": _lat_slow,
    "wide": _lat_wide,
}


# ---------------------------------------------------------------------------
# file-system clock
#
class _FsClock:
    """Process-wide state of the virtual-mtime machinery."""

    def __init__(self):
        self.root = None  # "<jail>/" ; None = inactive
        self.env = None
        self.dirty = set()
        self.busy = False
        self.installed = False
        self.access = None  # callable(event, path) recording node accesses (C09)


FS = _FsClock()

_WRITE_FLAGS = os.O_WRONLY | os.O_RDWR | os.O_APPEND | os.O_CREAT | os.O_TRUNC


def _under(path):
    root = FS.root
    if root is None:
        return None
    try:
        p = os.fspath(path)
    except TypeError:
        return None
    if isinstance(p, bytes):
        p = p.decode("utf-8", "surrogateescape")
    if not p.startswith(root):
        return None
    return p


def _mark(p, parent=True, itself=True):
    if itself:
        FS.dirty.add(p)
    if parent:
        d = os.path.dirname(p.rstrip("/"))
        if (d + "/").startswith(FS.root):
            FS.dirty.add(d)


_ACCESS_EVENTS = {
    "open": 0, "os.listdir": 0, "os.scandir": 0, "os.mkdir": 0, "os.remove": 0, "os.rmdir": 0, "os.rename": (0, 1), "os.link": (0, 1),
    "os.symlink": (0, 1), "os.utime": 0, "os.chmod": 0, "os.truncate": 0, "shutil.rmtree": 0, "os.chdir": 0, "shutil.copyfile": (0, 1),
    "shutil.move": (0, 1), "os.chown": 0, "glob.glob": 0, "os.walk": 0,
}


def _record_access(event, path):
    """C09: remember every path that code of a simulated node touches."""
    rec = FS.access
    if rec is None:
        return
    try:
        if not OWNER.get().startswith("node"):
            return
        p = os.fspath(path)
        if isinstance(p, bytes):
            p = p.decode("utf-8", "surrogateescape")
        if not isinstance(p, str):
            return
        rec(event, p)
    except Exception:
        pass


def _audit(event, args):
    if FS.root is None or FS.busy:
        return
    if FS.access is not None and event in _ACCESS_EVENTS:
        idx = _ACCESS_EVENTS[event]
        for i in (idx if isinstance(idx, tuple) else (idx,)):
            if i < len(args) and args[i] is not None and not isinstance(args[i], int):
                _record_access(event, args[i])
    try:
        if event == "open":
            path, mode, flags = args
            if not isinstance(flags, int) or not (flags & _WRITE_FLAGS):
                return
            p = _under(path)
            if p is None:
                return
            creates = False
            if flags & os.O_CREAT:
                try:
                    _real_lstat(p)
                except OSError:
                    creates = True
            kind = "create" if creates else ("trunc" if flags & os.O_TRUNC else "openw")
            FS.env.storage_event(kind, p)
            _mark(p, parent=creates)
        elif event in ("os.remove", "os.rmdir"):
            p = _under(args[0])
            if p is None:
                return
            FS.env.storage_event(event[3:], p)
            FS.dirty.discard(p)
            _mark(p, itself=False)
        elif event in ("os.rename", "os.link", "os.symlink"):
            src, dst = args[0], args[1]
            ps, pd = _under(src), _under(dst)
            if ps is None and pd is None:
                return
            FS.env.storage_event(event[3:], pd or ps, ps)
            if event == "os.rename" and ps is not None:
                FS.dirty.discard(ps)
                _mark(ps, itself=False)
            if pd is not None:
                _mark(pd, itself=False)
        elif event == "os.mkdir":
            p = _under(args[0])
            if p is None:
                return
            FS.env.storage_event("mkdir", p)
            _mark(p)
        elif event == "os.utime":
            p = _under(args[0])
            if p is None:
                return
            FS.env.storage_event("utime", p)
            FS.dirty.discard(p)
        elif event == "os.truncate":
            p = _under(args[0])
            if p is None:
                return
            FS.env.storage_event("trunc", p)
            _mark(p, parent=False)
        elif event == "shutil.rmtree":
            p = _under(args[0])
            if p is None:
                return
            FS.env.storage_event("rmtree", p)
            _mark(p, itself=False)
    except Exception as e:  # never let the hook break the program under test
        FS.env.harness_errors.append(f"audit hook: {event}: {e!r}")


def fs_flush():
    """Stamp every path mutated since the last flush with the virtual time."""
    if not FS.dirty:
        return
    FS.busy = True
    try:
        now = EPOCH + FS.env.loop._now
        for p in sorted(FS.dirty):
            try:
                _real_utime(p, (now, now), follow_symlinks=False)
            except OSError:
                pass
        FS.dirty.clear()
    finally:
        FS.busy = False


def _fix(path, st, follow):
    # A real (2026) timestamp leaked through (e.g. a buffered write flushed
    # after the step that opened the file): replace it by the virtual now.
    if st.st_mtime > REAL_CONTAMINATED:
        p = _under(path)
        if p is not None:
            FS.busy = True
            try:
                now = EPOCH + FS.env.loop._now
                try:
                    _real_utime(p, (now, now), follow_symlinks=follow)
                except (OSError, NotImplementedError):
                    return st
                FS.env.stats["fs_lazy_restamp"] = FS.env.stats.get("fs_lazy_restamp", 0) + 1
                return None
            finally:
                FS.busy = False
    return st


def _stat(path, *a, **kw):
    if FS.access is not None and not FS.busy and not isinstance(path, int):
        _record_access("os.stat", path)
    if FS.root is not None and not FS.busy:
        if FS.dirty:
            fs_flush()
        st = _real_stat(path, *a, **kw)
        if not a and "dir_fd" not in kw and isinstance(path, (str, bytes, os.PathLike)):
            r = _fix(path, st, kw.get("follow_symlinks", True))
            if r is None:
                st = _real_stat(path, *a, **kw)
        return st
    return _real_stat(path, *a, **kw)


def _lstat(path, *a, **kw):
    if FS.access is not None and not FS.busy and not isinstance(path, int):
        _record_access("os.lstat", path)
    if FS.root is not None and not FS.busy:
        if FS.dirty:
            fs_flush()
        st = _real_lstat(path, *a, **kw)
        if not a and not kw:
            r = _fix(path, st, False)
            if r is None:
                st = _real_lstat(path, *a, **kw)
        return st
    return _real_lstat(path, *a, **kw)


def install_process_hooks():
    """Called once in the parent; inert until a child sets FS.root."""
    if FS.installed:
        return
    FS.installed = True
    sys.addaudithook(_audit)
    os.stat = _stat
    os.lstat = _lstat


# ---------------------------------------------------------------------------
# tempfile names
#
class _Names:
    def __init__(self, rng):
        self.rng = rng

    def __iter__(self):
        return self

    def __next__(self):
        return "".join(self.rng.choice("abcdefghijklmnopqrstuvwxyz0123456789_") for _ in range(8))


# ---------------------------------------------------------------------------
# sqlite worker
#
class _DummyThread:
    def start(self):
        pass

    def join(self, *a):
        pass

    def is_alive(self):
        return False


class SimTx:
    """Replacement for aiosqlite's SimpleQueue + worker thread.

    Jobs run strictly FIFO, one at a time, each at a seeded service delay,
    in a loop event of their own -- as the real single worker thread would
    run them between loop iterations.
    """

    def __init__(self, env):
        self.env = env
        self.q = []
        self.pumping = False
        self.dead = False

    def put_nowait(self, item):
        env = self.env
        if self.dead or env.loop.is_closed():
            return
        self.q.append(item)
        if not self.pumping:
            self.pumping = True
            env.loop.call_later(env.lat("db"), self._pump)

    def _describe(self, fn):
        f = getattr(fn, "func", fn)
        name = getattr(f, "__name__", type(f).__name__)
        sql = ""
        args = getattr(fn, "args", ())
        if args and isinstance(args[0], str):
            sql = " ".join(args[0].split())[:60]
        return name, sql

    def _pump(self):
        env = self.env
        if not self.q:
            self.pumping = False
            return
        fut, fn = self.q.pop(0)
        name, sql = self._describe(fn)
        env.stats["db_jobs"] = env.stats.get("db_jobs", 0) + 1
        env.storage_event("db:" + name, sql)
        try:
            fault = env.db_fault(name, sql)
            if fault is not None:
                raise fault
            res = fn()
        except BaseException as e:  # noqa: B036 (mirrors aiosqlite)
            if fut is not None and not fut.done():
                fut.set_exception(e)
        else:
            if fut is not None and not fut.done():
                fut.set_result(res)
        env.storage_event("db-done:" + name, sql)
        env.log.add("db", name, sql)
        if self.q:
            env.loop.call_later(env.lat("db"), self._pump)
        else:
            self.pumping = False


# ---------------------------------------------------------------------------
# the environment of one run
#
class SimEnv:
    def __init__(self, seed, root, latency=None, step_cap=400_000, keep_log=False):
        self.seed = seed
        self.root = root  # run directory (jail lives in root/jail)
        self.loop = SimLoop(step_cap=step_cap)
        self.log = EventLog(keep=keep_log)
        self.stats = {}
        self.faults_fired = {}
        self.harness_errors = []
        self._rngs = {}
        self.latency = {"exec": "zero", "db": "zero", "net": "zero"}
        if latency:
            self.latency.update(latency)
        self.storage_hook = None  # callable(kind, a, b) for crash enumeration
        self.storage_events = 0
        self.db_fault_plan = None  # callable(name, sql) -> exception | None
        self.stall_plan = None
        self.connections = []

    # independent PRNG streams
    def rng(self, name):
        r = self._rngs.get(name)
        if r is None:
            r = self._rngs[name] = random.Random(derive_seed(self.seed, name))
        return r

    def lat(self, seam):
        return LATENCY[self.latency.get(seam, "zero")](self.rng("lat-" + seam))

    def fired(self, kind, n=1):
        self.faults_fired[kind] = self.faults_fired.get(kind, 0) + n

    def storage_event(self, kind, a=None, b=None):
        self.storage_events += 1
        if self.storage_hook is not None:
            self.storage_hook(kind, a, b)

    def db_fault(self, name, sql):
        if self.db_fault_plan is None:
            return None
        return self.db_fault_plan(name, sql)

    # ---- executor seam
    def _executor(self, loop, func, args):
        fut = loop.create_future()
        env = self

        def effect():
            env.stats["exec_jobs"] = env.stats.get("exec_jobs", 0) + 1
            try:
                res = func(*args)
            except BaseException as e:  # noqa: B036
                loop.call_later(env.lat("exec"), deliver, None, e)
            else:
                loop.call_later(env.lat("exec"), deliver, res, None)

        def deliver(res, exc):
            if fut.done():
                return
            if exc is not None:
                fut.set_exception(exc)
            else:
                fut.set_result(res)

        loop.call_later(env.lat("exec"), effect)
        return fut

    def install(self):
        """Install all seams in this (child) process."""
        import asyncio
        import aiosqlite.core as acore

        loop = self.loop
        asyncio.set_event_loop(loop)
        loop.executor_hook = self._executor

        time.time = lambda: EPOCH + loop._now
        time.monotonic = lambda: loop._now
        random.seed(derive_seed(self.seed, "asimap-random"))

        tmp = os.path.join(self.root, "tmp")
        os.makedirs(tmp, exist_ok=True)
        tempfile.tempdir = tmp
        tempfile._name_sequence = _Names(self.rng("tempnames"))

        env = self
        orig_init = acore.Connection.__init__
        if not getattr(acore.Connection, "_sim_patched", False):

            def init(conn, *a, **kw):
                orig_init(conn, *a, **kw)
                cur = SimEnv.current
                conn._tx = SimTx(cur)
                conn._thread = _DummyThread()
                cur.connections.append(conn)

            acore.Connection.__init__ = init
            acore.Connection._sim_patched = True
        SimEnv.current = env

        jail = os.path.join(self.root, "jail")
        os.makedirs(jail, exist_ok=True)
        FS.env = self
        FS.dirty = set()
        FS.root = jail + "/"
        loop.step_hooks.append(fs_flush)

    def kill_tasks(self, owner):
        """Tasks of a simulated process that has exited must not keep running
        (in-process zombies would keep polling and packing folders)."""
        import asyncio

        victims = []
        for t in asyncio.all_tasks(self.loop):
            try:
                if not t.done() and t.get_context().get(OWNER) == owner:
                    victims.append(t)
            except Exception:
                pass
        for t in victims:
            t.cancel()
        if victims:
            self.stats["zombie_tasks_killed"] = self.stats.get("zombie_tasks_killed", 0) + len(victims)
        return victims

    def process_exit(self):
        """Emulate what the OS does when the simulated process ends: sqlite
        connections that were never closed go away (open transactions are
        rolled back, locks released)."""
        n = 0
        for c in self.connections:
            raw = getattr(c, "_connection", None)
            if raw is not None:
                try:
                    raw.close()
                except Exception:
                    pass
                c._connection = None
                c._running = False
                c._tx.dead = True
                n += 1
        self.connections = []
        if n:
            self.stats["sqlite_connections_closed_at_exit"] = self.stats.get("sqlite_connections_closed_at_exit", 0) + n
        return n

    def wall(self):
        return EPOCH + self.loop._now

    def vnow(self):
        return self.loop._now - SimLoop.BASE


SimEnv.current = None
