"""
World B: the real front-end (asimap.server IMAPServer/IMAPClient/
IMAPSubprocessInterface, asimap.pop3_server, PreAuthenticated, throttle,
auth) with `IMAPSubprocess.start` replaced: the "subprocess" is a World-A
node in the same simulated loop, or a scripted responder.
"""

import asyncio
import contextvars
import os

from sim.seams import CONN, OWNER
from sim.world import ImapSession, UserNode, CmdResult


class FrontEnd:
    def __init__(self, world, jail, users):
        """users: {name: {"password": str|None, "hash": str|None, "maildir": bool}}"""
        self.world = world
        self.env = world.env
        self.net = world.net
        self.jail = jail
        self.users = users
        self.nodes = {}
        self.launches = []  # (t, username)
        self.relays = []  # (t, port)
        self.imap_port = 993
        self.pop_port = 995
        self.responder = None  # callable(username) -> port of a scripted responder
        self.mail_touches = []

    def maildir(self, user):
        return os.path.join(self.jail, user, "Mail")

    def write_pwfile(self):
        import asimap.auth as auth
        import asimap.hashers as hashers

        path = os.path.join(self.jail, "passwords.txt")
        with open(path, "w") as f:
            for name, u in self.users.items():
                if u.get("hash") is not None:
                    h = u["hash"]
                else:
                    h = hashers.make_password(u["password"])
                f.write(f"{name}:{h}:{self.maildir(name)}\n")
        auth.PW_FILE_LOCATION = path
        auth.PW_FILE_LAST_TIMESTAMP = 0.0
        auth.USERS.clear()
        for name, u in self.users.items():
            if u.get("maildir", True):
                os.makedirs(os.path.join(self.maildir(name), "inbox"), exist_ok=True)

    async def start(self):
        import asimap.pop3_server as p3
        import asimap.server as server

        self.write_pwfile()
        fe = self

        async def fake_start(subp):
            """Replacement for IMAPSubprocess.start(): an in-process node."""
            name = subp.user.username
            fe.launches.append((fe.env.vnow(), name, CONN.get()))
            if fe.responder is not None:
                subp.port = await fe.responder(name)
            else:
                node = fe.nodes.get(name)
                if node is None or not node.alive():
                    node = UserNode(fe.world, str(subp.user.maildir))
                    ok = await node.start()
                    if not ok:
                        raise RuntimeError(f"user node did not start: {node.start_error}")
                    fe.nodes[name] = node
                subp.port = node.port
            subp.is_alive = True
            subp.has_port.set()

        server.IMAPSubprocess.start = fake_start
        server.USER_IMAP_SUBPROCESSES.clear()
        orig_open = asyncio.open_connection

        async def open_conn(host=None, port=None, **kw):
            fe.relays.append((fe.env.vnow(), port, CONN.get()))
            return await orig_open(host, port, **kw)

        asyncio.open_connection = open_conn
        cx = contextvars.copy_context()
        cx.run(OWNER.set, "frontend")

        async def boot():
            self.imap = server.IMAPServer("0.0.0.0", self.imap_port, None)
            self.imap.asyncio_server = await asyncio.start_server(self.imap.new_client, "0.0.0.0", self.imap_port)
            self.pop = p3.POP3Server("0.0.0.0", self.pop_port, None)
            self.pop.asyncio_server = await asyncio.start_server(self.pop.new_client, "0.0.0.0", self.pop_port)

        t = self.world.loop.create_task(boot(), name="frontend-boot", context=cx)
        await t


class RawImapSession(ImapSession):
    """External IMAP client speaking real IMAP to the front-end."""

    framing = "raw"

    def __init__(self, world, sid, addr):
        super().__init__(world, sid, addr)
        self.expect_greeting = True
        self.greet_fut = world.loop.create_future()
        self.on_response = self._greet

    def _greet(self, sess, r):
        if self.expect_greeting and r.tag == "*" and r.kind in ("OK", "PREAUTH", "BYE"):
            self.expect_greeting = False
            self.greeting = r
            if not self.greet_fut.done():
                self.greet_fut.set_result(r)

    def _send_command(self, msg):
        self.send_raw(msg + b"\r\n")

    async def wait_greeting(self, timeout=30.0):
        try:
            return await asyncio.wait_for(asyncio.shield(self.greet_fut), timeout)
        except asyncio.TimeoutError:
            return None


class RawPop3Session:
    """External POP3 client (line based) talking to the front-end."""

    def __init__(self, world, sid, addr):
        self.world = world
        self.loop = world.loop
        self.sid = sid
        self.addr = addr
        self.transport = None
        self.buf = bytearray()
        self.lost = False
        self.waiter = None

    def connection_made(self, t):
        self.transport = t

    def data_received(self, data):
        self.buf += data
        if self.waiter is not None and not self.waiter.done():
            self.waiter.set_result(True)

    def eof_received(self):
        return False

    def connection_lost(self, exc):
        self.lost = True
        if self.waiter is not None and not self.waiter.done():
            self.waiter.set_result(False)

    def pause_writing(self):
        pass

    def resume_writing(self):
        pass

    async def line(self, timeout=60.0):
        deadline = self.loop.time() + timeout
        while True:
            i = self.buf.find(b"\n")
            if i >= 0:
                ln = bytes(self.buf[: i + 1])
                del self.buf[: i + 1]
                self.world.note("S>" + self.sid, ln)
                return ln
            if self.lost:
                return None
            rem = deadline - self.loop.time()
            if rem <= 0:
                return None
            self.waiter = self.loop.create_future()
            try:
                await asyncio.wait_for(self.waiter, rem)
            except asyncio.TimeoutError:
                return None

    async def cmd(self, text, timeout=60.0):
        if self.lost or self.transport is None:
            return None
        self.world.note("C>" + self.sid, text)
        self.transport.write(text.encode("latin-1") + b"\r\n")
        return await self.line(timeout)

    def close(self):
        if self.transport is not None and not self.lost:
            self.transport.close()
