"""
Virtual-time asyncio event loop.

`SimLoop` is a `BaseEventLoop` whose clock only moves when nothing is
runnable: the fake selector jumps the clock to the next scheduled timer
(discrete-event simulation).  The ready queue keeps asyncio's FIFO order.
No thread, socket or real sleep exists in a run.
"""

import asyncio
import heapq
import hashlib
from asyncio import base_events, events


class SimQuiescent(Exception):
    """Nothing is ready and nothing is scheduled."""


class StepLimit(Exception):
    """The per-run loop-iteration cap was hit."""


class _Selector:
    def __init__(self, loop):
        self.loop = loop

    def select(self, timeout):
        loop = self.loop
        if timeout is None:
            raise SimQuiescent()
        if timeout > 0:
            # Jump exactly to the next timer.  (Adding `timeout` to the clock
            # would lose sub-ulp remainders and spin.)
            if loop._scheduled:
                when = loop._scheduled[0]._when
                if when > loop._now:
                    loop._now = when
            else:
                loop._now += timeout
        return ()

    def close(self):
        pass


class SimLoop(base_events.BaseEventLoop):
    BASE = 1000.0

    def __init__(self, step_cap=400_000):
        super().__init__()
        self._now = self.BASE
        self._clock_resolution = 1e-9
        self._selector = _Selector(self)
        self.steps = 0
        self.step_cap = step_cap
        self.step_hooks = []  # callables run after every loop iteration
        self.executor_hook = None  # set by seams: (loop, func, args) -> Future
        self.task_seq = 0
        self.set_task_factory(self._task_factory)

    # -- deterministic task names (default names use a process-global counter)
    def _task_factory(self, loop, coro, **kw):
        if kw.get("name") is None:
            self.task_seq += 1
            kw["name"] = f"simtask-{self.task_seq}"
        return asyncio.Task(coro, loop=loop, **kw)

    def time(self):
        return self._now

    def _process_events(self, event_list):
        pass

    def _write_to_self(self):
        pass

    def _start_serving(self, *a, **kw):
        pass

    def _stop_serving(self, sock):
        pass

    def add_signal_handler(self, sig, callback, *args):
        pass

    def remove_signal_handler(self, sig):
        return False

    def call_soon_threadsafe(self, callback, *args, context=None):
        return self.call_soon(callback, *args, context=context)

    def run_in_executor(self, executor, func, *args):
        if self.executor_hook is None:
            raise RuntimeError("no executor seam installed")
        return self.executor_hook(self, func, args)

    def _run_once(self):
        self.steps += 1
        if self.steps > self.step_cap:
            raise StepLimit(f"step cap {self.step_cap} exceeded")
        super()._run_once()
        for h in self.step_hooks:
            h()

    def default_exception_handler(self, context):
        # Never print; record for the harness (unhandled task exceptions are
        # informational, not violations by themselves).
        self.unhandled = getattr(self, "unhandled", [])
        msg = context.get("message", "")
        exc = context.get("exception")
        self.unhandled.append(f"{msg}: {exc!r}")

    async def shutdown_default_executor(self, timeout=None):
        return

    def close(self):
        if self.is_closed():
            return
        self._ready.clear()
        self._scheduled.clear()
        super().close()


class EventLog:
    """Digest of everything observable in a run (for the determinism test)."""

    def __init__(self, keep=False):
        self.h = hashlib.sha256()
        self.n = 0
        self.keep = keep
        self.items = []

    def add(self, *parts):
        self.n += 1
        s = repr(parts).encode("utf-8", "backslashreplace")
        self.h.update(s)
        self.h.update(b"\n")
        if self.keep:
            self.items.append(parts)

    def digest(self):
        return self.h.hexdigest()
