"""
Simulated TCP: in-order, reliable byte pipes with seeded latency,
re-segmentation, back-pressure, half-close and reset.  The asyncio stream
classes (StreamReader, StreamReaderProtocol, StreamWriter, base_events.Server)
are the real ones; only the transport and the listening socket are fakes.
"""

import asyncio
from asyncio import base_events, transports
from collections import deque

HIGH_WATER = 65536
LOW_WATER = 16384


class _FakeSock:
    def __init__(self, port):
        self.port = port
        self.family = 2
        self.type = 1
        self.proto = 0

    def listen(self, backlog):
        pass

    def getsockname(self):
        return ("127.0.0.1", self.port)

    def close(self):
        pass

    def fileno(self):
        return -1


class Pipe:
    """One direction of a link."""

    def __init__(self, env, name, seg="whole", lat="net"):
        self.env = env
        self.name = name
        self.seg = seg
        self.lat = lat
        self.q = deque()
        self.buffered = 0
        self.dst = None  # SimTransport (receiving side)
        self.src = None  # SimTransport (sending side)
        self.timer = None
        self.eof_sent = False
        self.broken = False
        self.rng = env.rng("seg-" + name)
        self.stalled = False  # receiver application does not read

    def _chunks(self, data):
        seg = self.seg
        if seg == "whole" or len(data) <= 1:
            return [data]
        r = self.rng
        out = []
        i = 0
        n = len(data)
        if seg == "bytes":
            while i < n:
                k = r.randint(1, 7)
                out.append(data[i : i + k])
                i += k
        elif seg == "mixed":
            while i < n:
                x = r.random()
                if x < 0.4:
                    k = r.randint(1, 7)
                elif x < 0.7:
                    k = r.randint(8, 200)
                else:
                    k = n - i
                out.append(data[i : i + k])
                i += k
        elif seg == "big":
            while i < n:
                k = r.choice((512, 1460, 4096, 16384, 65536))
                out.append(data[i : i + k])
                i += k
        else:
            return [data]
        return out

    def send(self, data):
        if self.broken or self.eof_sent:
            return
        if self.seg == "coalesce" and self.q and isinstance(self.q[-1], bytes):
            self.q[-1] = self.q[-1] + data
        else:
            self.q.extend(self._chunks(data))
        self.buffered += len(data)
        self._arm()
        if self.buffered > HIGH_WATER and self.src is not None:
            self.src._set_paused(True)

    def send_eof(self):
        if self.broken or self.eof_sent:
            return
        self.eof_sent = True
        self.q.append(None)
        self._arm()

    def _arm(self):
        if self.timer is None and self.q and not self._blocked():
            # with fine segmentation most chunks follow each other immediately (one TCP
            # stream), a delay is drawn only now and then - otherwise 64 KiB in 1-7 byte
            # chunks would take simulated minutes
            if self.seg in ("bytes", "mixed") and self.rng.random() > 0.03:
                d = 0.0
            else:
                d = self.env.lat(self.lat)
            self.timer = self.env.loop.call_later(d, self._pump)

    def _blocked(self):
        return self.stalled or (self.dst is not None and self.dst._read_paused)

    def kick(self):
        self._arm()

    def _pump(self):
        self.timer = None
        if self.broken or not self.q or self._blocked():
            return
        item = self.q.popleft()
        dst = self.dst
        if item is None:
            if dst is not None:
                dst._peer_eof()
        else:
            self.buffered -= len(item)
            if dst is not None and not dst._lost:
                self.env.stats["net_chunks"] = self.env.stats.get("net_chunks", 0) + 1
                dst._deliver(item)
            if self.buffered < LOW_WATER and self.src is not None:
                self.src._set_paused(False)
        self._arm()

    def break_(self):
        self.broken = True
        self.q.clear()
        self.buffered = 0
        if self.timer is not None:
            self.timer.cancel()
            self.timer = None


class SimTransport(transports.Transport):
    def __init__(self, env, protocol, out_pipe, in_pipe, peername, sockname, server=None, tap=None):
        super().__init__()
        self.env = env
        self.loop = env.loop
        self._protocol = protocol
        self.out = out_pipe
        self.inp = in_pipe
        out_pipe.src = self
        in_pipe.dst = self
        self._closing = False
        self._lost = False
        self._read_paused = False
        self._write_paused = False
        self._peername = peername
        self._sockname = sockname
        self._server = server
        self._peer_gone = False
        self.tap = tap  # callable(data) observing writes at the write instant
        if server is not None:
            server._attach(self)

    # -- asyncio.Transport API
    def get_extra_info(self, name, default=None):
        if name == "peername":
            return self._peername
        if name == "sockname":
            return self._sockname
        return default

    def is_closing(self):
        return self._closing

    def set_protocol(self, protocol):
        self._protocol = protocol

    def get_protocol(self):
        return self._protocol

    def is_reading(self):
        return not self._read_paused and not self._closing

    def pause_reading(self):
        self._read_paused = True

    def resume_reading(self):
        if self._read_paused:
            self._read_paused = False
            self.inp.kick()

    def set_write_buffer_limits(self, high=None, low=None):
        pass

    def get_write_buffer_size(self):
        return self.out.buffered

    def get_write_buffer_limits(self):
        return (LOW_WATER, HIGH_WATER)

    def write(self, data):
        if not data:
            return
        data = bytes(data)
        if self._lost or self._closing:
            return
        if self.tap is not None:
            self.tap(data)
        if self._peer_gone:
            # writing to a connection the peer has closed: RST
            self._fail(ConnectionResetError("Connection reset by peer"))
            return
        self.out.send(data)

    def writelines(self, lines):
        self.write(b"".join(lines))

    def can_write_eof(self):
        return True

    def write_eof(self):
        self.out.send_eof()

    def close(self):
        if self._closing:
            return
        self._closing = True
        self.out.send_eof()
        self.inp.break_()
        self.loop.call_soon(self._call_lost, None)

    def abort(self):
        if self._lost:
            return
        self._closing = True
        self.out.break_()
        self.inp.break_()
        peer = self.out.dst
        if peer is not None:
            self.loop.call_later(self.env.lat("net"), peer._fail, ConnectionResetError("Connection reset by peer"))
        self.loop.call_soon(self._call_lost, None)

    # -- internals
    def _set_paused(self, flag):
        if flag and not self._write_paused:
            self._write_paused = True
            try:
                self._protocol.pause_writing()
            except Exception:
                pass
        elif not flag and self._write_paused:
            self._write_paused = False
            try:
                self._protocol.resume_writing()
            except Exception:
                pass

    def _deliver(self, data):
        if self._closing or self._lost:
            return
        self._protocol.data_received(data)

    def _peer_eof(self):
        self._peer_gone = True
        if self._lost or self._closing:
            return
        keep = self._protocol.eof_received()
        if not keep:
            self.close()

    def _fail(self, exc):
        if self._lost:
            return
        self._closing = True
        self.out.break_()
        self.inp.break_()
        self._call_lost(exc)

    def _call_lost(self, exc):
        if self._lost:
            return
        self._lost = True
        try:
            self._protocol.connection_lost(exc)
        finally:
            if self._server is not None:
                self._server._detach(self)
                self._server = None


class Net:
    """Listening ports and connection establishment for one run."""

    def __init__(self, env):
        self.env = env
        self.loop = env.loop
        self.listeners = {}
        self.next_port = 40001
        self.next_client_port = 50001
        self.conn_no = 0
        self.on_accept = None  # callable(port, client_transport, server_transport)

    # patched asyncio.start_server
    async def start_server(self, client_connected_cb, host=None, port=None, *, limit=2**16, start_serving=True, **kw):
        loop = self.loop

        def factory():
            reader = asyncio.StreamReader(limit=limit, loop=loop)
            return asyncio.StreamReaderProtocol(reader, client_connected_cb, loop=loop)

        if not port:
            port = self.next_port
            self.next_port += 1
        sock = _FakeSock(port)
        server = base_events.Server(loop, [sock], factory, None, 100, None, None)
        import contextvars

        server._sim_ctx = contextvars.copy_context()  # the listening process's context
        self.listeners[port] = server
        if start_serving:
            server._start_serving()
            await asyncio.sleep(0)
        return server

    def _link(self, port, client_protocol, addr, seg_c2s, seg_s2c, tap_c2s=None, tap_s2c=None):
        server = self.listeners.get(port)
        if server is None or not server.is_serving():
            raise ConnectionRefusedError(f"Connect call failed ('127.0.0.1', {port})")
        self.conn_no += 1
        n = self.conn_no
        cport = self.next_client_port
        self.next_client_port += 1
        c2s = Pipe(self.env, f"c{n}>s", seg=seg_c2s)
        s2c = Pipe(self.env, f"s{n}>c", seg=seg_s2c)
        sproto = server._protocol_factory()
        st = SimTransport(self.env, sproto, s2c, c2s, (addr, cport), ("127.0.0.1", port), server=server, tap=tap_s2c)
        ct = SimTransport(self.env, client_protocol, c2s, s2c, ("127.0.0.1", port), (addr, cport), tap=tap_c2s)
        sctx = getattr(server, "_sim_ctx", None)
        if sctx is not None:
            from sim.seams import CONN

            cx = sctx.copy()
            cx.run(CONN.set, n)
            cx.run(sproto.connection_made, st)
        else:
            sproto.connection_made(st)
        client_protocol.connection_made(ct)
        return ct, st

    # patched asyncio.open_connection
    async def open_connection(self, host=None, port=None, *, limit=2**16, **kw):
        loop = self.loop
        await asyncio.sleep(self.env.lat("net"))
        reader = asyncio.StreamReader(limit=limit, loop=loop)
        protocol = asyncio.StreamReaderProtocol(reader, loop=loop)
        ct, st = self._link(port, protocol, "127.0.0.1", "whole", "whole")
        if self.on_accept is not None:
            self.on_accept(port, ct, st)
        writer = asyncio.StreamWriter(ct, protocol, reader, loop)
        return reader, writer

    # harness-side connect: `endpoint` implements the protocol interface
    def connect(self, port, endpoint, addr="10.0.0.1", seg_c2s="whole", seg_s2c="whole", tap_s2c=None):
        ct, st = self._link(port, endpoint, addr, seg_c2s, seg_s2c, tap_s2c=tap_s2c)
        return ct, st

    def install(self):
        asyncio.start_server = self.start_server
        asyncio.open_connection = self.open_connection
        import asyncio.streams as streams

        streams.start_server = self.start_server
        streams.open_connection = self.open_connection
