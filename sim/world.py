"""
World A: one real per-user asimap process (IMAPUserServer.new + run) inside
the simulator, plus harness-side IMAP/POP3 sessions that speak the
`{len}\\n<command>` framing the front-end would.  Every session carries a
monitor that checks the stream invariants of C01, C06 and C07 on the fly.
"""

import asyncio
import os
import re
import sys
from pathlib import Path

from model.resp import (
    Atom,
    Lit,
    Malformed,
    Pop3Splitter,
    QStr,
    Splitter,
    fetch_items,
    parse_response,
)

REPLY_TIMEOUT = 150.0  # virtual seconds; > asimap's 120 s command watchdog
PROMPT_BOUND = 100.0  # C06 promptness bound (virtual seconds; below the 120 s watchdog - slow I/O profiles legitimately take tens of seconds)

_PAYLOAD_KINDS = {"SEARCH", "LIST", "LSUB", "STATUS", "NAMESPACE", "ID", "CAPABILITY"}
_NONUID_FSS = {"FETCH", "STORE", "SEARCH"}


class CmdResult:
    __slots__ = (
        "tag", "verb", "uid", "status", "text", "code", "untagged", "latency",
        "sent_at", "done_at", "bye", "closed", "timeout", "line", "cont",
    )

    def __init__(self):
        self.tag = None
        self.verb = None
        self.uid = False
        self.status = None  # OK / NO / BAD / None
        self.text = ""
        self.code = None
        self.untagged = []
        self.latency = None
        self.sent_at = None
        self.done_at = None
        self.bye = False
        self.closed = False
        self.timeout = False
        self.line = b""
        self.cont = 0

    @property
    def ok(self):
        return self.status == "OK"

    @property
    def refused(self):
        return self.status in ("NO", "BAD")

    def brief(self):
        return {
            "cmd": self.line[:120].decode("latin-1", "replace"),
            "status": self.status,
            "text": (self.text or "")[:120],
            "untagged": [u.raw[:100].decode("latin-1", "replace") for u in self.untagged[:12]],
            "lat": None if self.latency is None else round(self.latency, 4),
            "closed": self.closed,
            "bye": self.bye,
            "timeout": self.timeout,
        }


class World:
    """Shared state of one simulated run."""

    def __init__(self, env, net):
        self.env = env
        self.net = net
        self.loop = env.loop
        self.violations = []
        self.stats = env.stats
        self.rules = {}  # rule -> number of evaluations (oracle reach)
        self.transcript = []
        self.transcript_cap = 4000
        self.known = None  # KnownFindings matcher (set by driver)
        self.stop_on_violation = False
        self.aborted = None
        _ROOT[0] = env.root.encode()

    def count(self, rule, n=1):
        self.rules[rule] = self.rules.get(rule, 0) + n

    def violate(self, prop, rule, **detail):
        v = {"property": prop, "rule": rule, "detail": detail, "step": self.loop.steps, "t": round(self.env.vnow(), 6)}
        self.violations.append(v)
        self.note("VIOLATION", prop, rule, detail)
        return v

    def note(self, *parts):
        if len(self.transcript) < self.transcript_cap:
            self.transcript.append((round(self.env.vnow(), 6),) + tuple(_short(p) for p in parts))
        self.env.log.add(*[_short(p) for p in parts])


_ROOT = [None]


def _short(p):
    if isinstance(p, (bytes, bytearray)):
        p = bytes(p)
        if _ROOT[0] and _ROOT[0][1:] in p:
            p = p.replace(_ROOT[0], b"<RUN>").replace(_ROOT[0][1:], b"<RUN>")
        if len(p) > 200:
            return p[:200].decode("latin-1") + f"...(+{len(p) - 200})"
        return p.decode("latin-1")
    if isinstance(p, dict):
        return {k: _short(v) for k, v in p.items()}
    if isinstance(p, (list, tuple)):
        return [_short(x) for x in p]
    if isinstance(p, str):
        if _ROOT[0] and _ROOT[0].decode()[1:] in p:
            p = p.replace(_ROOT[0].decode(), "<RUN>").replace(_ROOT[0].decode()[1:], "<RUN>")
        if len(p) > 300:
            return p[:300] + "..."
    return p


# ---------------------------------------------------------------------------
class _SysShim:
    """Stands in for the `sys` module inside asimap.user_server."""

    def __init__(self, node):
        self._node = node
        self.stdout = self
        self.stderr = sys.stderr
        self.platform = sys.platform

    def write(self, s):
        self._node._stdout(s)

    def flush(self):
        pass

    def exit(self, code=0):
        raise SystemExit(code)

    def __getattr__(self, name):
        return getattr(sys, name)


class UserNode:
    """The per-user process: real IMAPUserServer.new() and .run()."""

    def __init__(self, world, maildir):
        self.world = world
        self.env = world.env
        self.net = world.net
        self.maildir = Path(maildir)
        self.server = None
        self.run_task = None
        self.port = None
        self.port_fut = None
        self.generation = 0
        self.start_error = None

    def _stdout(self, s):
        s = s.strip()
        if s.isdigit() and self.port_fut is not None and not self.port_fut.done():
            self.port_fut.set_result(int(s))

    async def start(self, timeout=600.0):
        import asimap.user_server as us

        self.generation += 1
        us.sys = _SysShim(self)
        loop = self.world.loop
        self.port_fut = loop.create_future()
        self.port = None

        async def main():
            self.server = await us.IMAPUserServer.new(self.maildir)
            await self.server.run()

        import contextvars

        from sim.seams import OWNER

        self.owner = f"node-{self.generation}"
        cx = contextvars.copy_context()
        cx.run(OWNER.set, self.owner)
        self.run_task = loop.create_task(main(), name=f"user-node-{self.generation}", context=cx)
        done, _ = await asyncio.wait({self.run_task, self.port_fut}, timeout=timeout, return_when=asyncio.FIRST_COMPLETED)
        if self.port_fut in done:
            self.port = self.port_fut.result()
            return True
        if self.run_task in done:
            exc = self.run_task.exception() if not self.run_task.cancelled() else "cancelled"
            self.start_error = repr(exc)
        else:
            self.start_error = "start-up did not announce a port within %.0f virtual s" % timeout
        return False

    def alive(self):
        return self.run_task is not None and not self.run_task.done()

    async def stop_cancel(self, timeout=300.0, cancel=True):
        """Orderly stop as a cancellation of run() (finally: shutdown())."""
        if self.run_task is None:
            return True
        if cancel:
            self.run_task.cancel()
        done, pend = await asyncio.wait({self.run_task}, timeout=timeout)
        ok = bool(done)
        self.server = None
        if ok:
            await self._exit()
        return ok

    async def wait_exit(self, timeout):
        done, _ = await asyncio.wait({self.run_task}, timeout=timeout)
        if done:
            await self._exit()
        return bool(done)

    async def _exit(self):
        """The simulated process is gone: none of its tasks may go on running
        and the OS closes what it left open."""
        victims = self.env.kill_tasks(self.owner)
        if victims:
            await asyncio.wait(victims, timeout=5)
        self.env.process_exit()


# ---------------------------------------------------------------------------
class ImapSession:
    """Harness-side IMAP endpoint + stream monitor (protocol interface)."""

    framing = "user"  # "{len}\n" frames (World A); "raw" = real IMAP (World B)

    def __init__(self, world, sid, addr="10.0.0.1"):
        self.world = world
        self.env = world.env
        self.loop = world.loop
        self.sid = sid
        self.addr = addr
        self.transport = None
        self.split = Splitter()
        self.connected = False
        self.lost = False
        self.lost_exc = None
        self.eof = False
        self.bye = False
        self.desync = False
        self.ntag = 0
        self.cur = None  # CmdResult in progress
        self.cur_fut = None
        self.cont_fut = None
        self.idling = False
        self.idle_res = None
        self.done_tags = set()
        # C01 replayed view
        self.view = None  # list of uid|None when a mailbox is selected
        self.selecting = False
        self.selected = None
        self.readonly = False
        self.pending_select = None
        self.unsolicited = []  # responses outside any command
        self.greeting = None
        self.expect_greeting = False
        self.flag_news = {}  # uid/seq -> last flags told (since last flush)
        self.on_response = None

    # ---- protocol interface
    def connection_made(self, transport):
        self.transport = transport
        self.connected = True

    def data_received(self, data):
        if self.desync:
            return
        w = self.world
        try:
            responses = self.split.feed(data)
        except Malformed as e:
            # framing itself is broken: nothing after this point can be trusted
            self.desync = True
            w.count("c07_stream")
            w.violate("C07", e.kind, session=self.sid, detail=e.detail[:200], cmd=self._curverb())
            if self.cur_fut is not None and not self.cur_fut.done():
                self.cur_fut.set_result("desync")
            return
        for parts in responses:
            try:
                r = parse_response(parts)
            except Malformed as e:
                w.count("c07_stream")
                w.violate("C07", e.kind, session=self.sid, detail=e.detail[:200], cmd=self._curverb(), raw=bytes(parts[0][:120]))
                r = self._salvage(parts)
                if r is None:
                    continue
            code = getattr(r, "code", None)
            if code and str(code[0]).upper() in ("COPYUID", "APPENDUID"):
                # RFC 4315 resp-code-copy / resp-code-apnd: UIDVALIDITY and non-empty uid-set(s)
                w.count("c07_uidplus_code")
                need = 4 if str(code[0]).upper() == "COPYUID" else 3
                args = [str(x) for x in code[1:]]
                import re as _re

                if len(code) != need or not all(_re.fullmatch(r"[0-9]+(?::[0-9]+)?(?:,[0-9]+(?::[0-9]+)?)*", a) for a in args):
                    w.violate("C07", "bad_response_code", session=self.sid, code=[str(x) for x in code], cmd=self._curverb(), raw=bytes(parts[0][:120]))
            if r.kind == "FETCH":
                self._check_fetch_structures(r, parts)
            elif r.kind == "SEARCH":
                # mailbox-data =/ "SEARCH" *(SP nz-number)
                w.count("c07_search_line")
                import re as _re

                if len(parts) != 1 or not _re.fullmatch(rb"\* SEARCH( [1-9][0-9]*)*(\r\n)?", bytes(parts[0])):
                    w.violate("C07", "bad_search_response", session=self.sid, cmd=self._curverb(), raw=bytes(parts[0][:120]))
            elif r.kind == "FLAGS" and r.tokens and isinstance(r.tokens[0], list):
                self._check_flag_atoms(r.tokens[0], parts)
            self._handle(r)

    _FLAG_ATOM = None

    def _check_flag_atoms(self, flags, parts):
        """C07: what stands in a flag list is `\\`? followed by ATOM-CHARs (a `]` or a `(` inside a keyword breaks the
        client's parser further on, e.g. in `* OK [PERMANENTFLAGS (...)]`)."""
        import re as _re

        w = self.world
        w.count("c07_flag_atoms")
        for f in flags:
            if isinstance(f, list) or not _re.fullmatch(r"\\?[^\x00-\x20\x7f-\xff(){%*\"\\\]]+", str(f)):
                w.violate("C07", "bad_flag_atom", session=self.sid, flag=repr(f)[:60], cmd=self._curverb(), raw=bytes(parts[0][:120]))
                return

    def _check_fetch_structures(self, r, parts):
        """C07: the parenthesised structures of ENVELOPE and BODY/BODYSTRUCTURE have the shape rfc3501 gives them
        (a client's parser indexes into them): address lists are NIL or non-empty lists of 4-element addresses;
        a body is either 1*body SP subtype or type SP subtype SP params ..."""
        w = self.world
        try:
            items = fetch_items(r)
        except Exception:
            return

        def nil(v):
            return isinstance(v, Atom) and str(v).upper() == "NIL"

        def bad(what, v):
            w.violate("C07", "bad_fetch_structure", session=self.sid, what=what, value=repr(v)[:160], cmd=self._curverb(), raw=bytes(parts[0][:120]))

        if not items:
            bad("no data item in the FETCH response", r.tokens)
        fl = items.get("FLAGS")
        if isinstance(fl, list):
            self._check_flag_atoms(fl, parts)
        env = items.get("ENVELOPE")
        if env is not None:
            w.count("c07_envelope_shape")
            if not isinstance(env, list) or len(env) != 10:
                bad("envelope is not a list of 10", env)
            else:
                for i in range(2, 8):
                    a = env[i]
                    if nil(a):
                        continue
                    if not isinstance(a, list) or not a:
                        bad(f"envelope address field {i} is neither NIL nor a non-empty list", a)
                        break
                    if any(not isinstance(x, list) or len(x) != 4 for x in a):
                        bad(f"envelope address field {i}: an address is not a list of 4", a)
                        break
                for i in (0, 1, 8, 9):
                    if isinstance(env[i], list):
                        bad(f"envelope field {i} is a list", env[i])
                        break

        def body(b, depth=0):
            if not isinstance(b, list) or not b or depth > 40:
                bad("body is not a non-empty list", b)
                return
            if isinstance(b[0], list):
                k = 0
                while k < len(b) and isinstance(b[k], list):
                    body(b[k], depth + 1)
                    k += 1
                if k >= len(b) or isinstance(b[k], list) or nil(b[k]):
                    bad("multipart body without a subtype string", b[k:k + 1])
                return
            if len(b) < 7:
                bad("single-part body with fewer than 7 fields", b)
                return
            if isinstance(b[1], list) or nil(b[0]) or nil(b[1]):
                bad("body type/subtype is not a string", b[:2])
            if not (nil(b[2]) or (isinstance(b[2], list) and b[2] and len(b[2]) % 2 == 0)):
                bad("body parameter list is neither NIL nor a non-empty list of pairs", b[2])
            if isinstance(b[5], list) or nil(b[5]):
                bad("body encoding is not a string", b[5])
            if isinstance(b[6], list) or not str(b[6]).isdigit():
                bad("body size is not a number", b[6])

        for name in ("BODY", "BODYSTRUCTURE"):
            bs = items.get(name)
            if bs is not None:
                w.count("c07_body_shape")
                body(bs)

    def _salvage(self, parts):
        """A response that framed correctly but does not tokenize: keep the
        session going if it is the tagged completion of the current command."""
        first = bytes(parts[0])
        ws = first.split(b" ", 2)
        c = self.cur
        if c is not None and len(ws) >= 2 and ws[0].decode("latin-1") == c.tag and ws[1].upper() in (b"OK", b"NO", b"BAD"):
            from model.resp import Resp

            r = Resp()
            r.raw = first + b"\r\n"
            r.tag = c.tag
            r.kind = r.status = ws[1].upper().decode()
            r.text = ws[2].decode("latin-1") if len(ws) > 2 else ""
            return r
        return None

    def eof_received(self):
        self.eof = True
        return False

    def connection_lost(self, exc):
        self.lost = True
        self.lost_exc = exc
        self.connected = False
        if self.cur_fut is not None and not self.cur_fut.done():
            self.cur_fut.set_result("closed")
        if self.cont_fut is not None and not self.cont_fut.done():
            self.cont_fut.set_result("closed")

    def pause_writing(self):
        pass

    def resume_writing(self):
        pass

    # ---- monitor
    def _curverb(self):
        c = self.cur
        if c is None:
            return None
        return ("UID " if c.uid else "") + (c.verb or "?")

    def _handle(self, r):
        w = self.world
        w.count("c07_stream")
        w.note("S>" + self.sid, r.raw)
        if self.on_response is not None:
            self.on_response(self, r)
        if r.tag == "+":
            if self.cont_fut is not None and not self.cont_fut.done():
                self.cont_fut.set_result(r)
            else:
                self.unsolicited.append(r)
                if self.cur is not None:
                    self.cur.untagged.append(r)
            return
        if r.tag == "*":
            self._untagged(r)
            if self.cur is not None:
                self.cur.untagged.append(r)
            else:
                self.unsolicited.append(r)
            return
        # tagged
        w.count("c06_tagged")
        c = self.cur
        if c is None or r.tag != c.tag:
            if r.tag in self.done_tags:
                w.violate("C06", "duplicate_tagged_reply", session=self.sid, tag=r.tag, text=r.raw[:80])
            else:
                w.violate("C06", "wrong_tag", session=self.sid, tag=r.tag, expected=None if c is None else c.tag)
            return
        if self.idling and c.verb == "IDLE" and not self.idle_done_sent:
            w.violate("C06", "idle_completed_before_done", session=self.sid, text=r.raw[:80])
        c.status = r.status
        c.text = r.text
        c.code = r.code
        c.done_at = self.loop.time()
        c.latency = c.done_at - c.sent_at
        self.done_tags.add(c.tag)
        self._on_tagged(c)
        self.cur = None
        self.idling = False
        fut, self.cur_fut = self.cur_fut, None
        if fut is not None and not fut.done():
            fut.set_result("tagged")

    def _on_tagged(self, c):
        v = c.verb
        if v in ("SELECT", "EXAMINE"):
            self.selecting = False
            if c.status == "OK" and not self.bye:
                self.selected = self.pending_select
                self.readonly = v == "EXAMINE"
                if self.view is None:
                    self.view = []
            else:
                self.selected = None
                self.view = None
        elif v in ("CLOSE", "UNSELECT"):
            if c.status == "OK":
                self.selected = None
                self.view = None

    def _untagged(self, r):
        w = self.world
        k = r.kind
        if k == "BYE":
            self.bye = True
            return
        c = self.cur
        if k == "EXISTS":
            w.count("c01_exists")
            n = r.num
            if self.selecting:
                self.view = [None] * n
                return
            if self.view is None:
                w.violate("C01", "exists_without_selection", session=self.sid, n=n)
                return
            if n < len(self.view):
                w.violate(
                    "C01", "exists_shrinks", session=self.sid, n=n, view=len(self.view), cmd=self._curverb(),
                    mailbox=self.selected,
                )
                # resynchronise the replay so later rules keep meaning something
                del self.view[n:]
            else:
                self.view.extend([None] * (n - len(self.view)))
            return
        if k == "EXPUNGE":
            w.count("c01_expunge")
            n = r.num
            if self.view is None or not (1 <= n <= len(self.view)):
                w.violate(
                    "C01", "expunge_out_of_view", session=self.sid, n=n,
                    view=None if self.view is None else len(self.view), cmd=self._curverb(),
                )
            else:
                del self.view[n - 1]
            if c is None and not self.idling:
                w.violate("C01", "expunge_without_command", session=self.sid, n=n)
            elif c is not None and c.verb in _NONUID_FSS and not c.uid:
                w.violate("C01", "expunge_during_fss", session=self.sid, n=n, cmd=self._curverb())
            return
        if k == "FETCH":
            w.count("c01_fetch")
            n = r.num
            try:
                items = fetch_items(r)
            except Malformed as e:
                w.violate("C07", e.kind, session=self.sid, detail=e.detail[:200])
                return
            if self.view is None or not (1 <= n <= len(self.view)):
                w.violate(
                    "C01", "fetch_out_of_view", session=self.sid, n=n,
                    view=None if self.view is None else len(self.view), cmd=self._curverb(),
                )
                return
            u = items.get("UID")
            if u is not None and isinstance(u, Atom) and u.isdigit():
                u = int(u)
                cell = self.view[n - 1]
                if cell is not None and cell != u:
                    w.violate("C01", "seq_rebinds_uid", session=self.sid, n=n, had=cell, now=u, cmd=self._curverb())
                self.view[n - 1] = u
                w.count("c02_ascending")
                lo = [x for x in self.view[: n - 1] if x is not None]
                hi = [x for x in self.view[n:] if x is not None]
                if (lo and max(lo) >= u) or (hi and min(hi) <= u):
                    w.violate("C02", "uid_not_ascending", session=self.sid, n=n, uid=u, view=list(self.view))
            if c is None and not self.idling:
                extra = [x for x in items if x not in ("FLAGS", "UID")]
                if extra:
                    w.violate("C06", "data_after_tag", session=self.sid, kind="FETCH", items=extra)
            return
        if k in _PAYLOAD_KINDS and c is None and not self.expect_greeting:
            w.count("c06_payload")
            w.violate("C06", "data_after_tag", session=self.sid, kind=k, text=r.raw[:80])

    # ---- sending
    def _frame(self, msg):
        return b"{%d}\n" % len(msg) + msg

    def send_raw(self, data):
        if self.transport is not None and not self.lost:
            self.transport.write(data)

    async def command(self, line, verb=None, uid=False, tag=None, timeout=REPLY_TIMEOUT):
        """Send one complete command (literals inline) and await its reply."""
        w = self.world
        c = CmdResult()
        if tag is None:
            self.ntag += 1
            tag = f"{self.sid}{self.ntag}"
        if isinstance(line, str):
            line = line.encode("latin-1")
        c.tag = tag
        c.line = tag.encode() + b" " + line
        if verb is None:
            ws = line.split()
            verb = ws[0].upper().decode("latin-1") if ws else "?"
            if verb == "UID" and len(ws) > 1:
                uid = True
                verb = ws[1].upper().decode("latin-1")
        c.verb = verb
        c.uid = uid
        c.sent_at = self.loop.time()
        if self.lost or self.transport is None:
            c.closed = True
            return c
        if verb in ("SELECT", "EXAMINE"):
            self.selecting = True
            self.view = None
            self.selected = None
            m = re.match(rb'\S+\s+"?([^"\r\n]*)"?', line)
            self.pending_select = m.group(1).decode("latin-1") if m else None
        self.cur = c
        self.cur_fut = self.loop.create_future()
        w.note("C>" + self.sid, c.line)
        self._send_command(c.line)
        await self._await_reply(c, timeout)
        return c

    def _send_command(self, msg):
        self.send_raw(self._frame(msg))

    async def _await_reply(self, c, timeout):
        w = self.world
        fut = self.cur_fut
        try:
            how = await asyncio.wait_for(asyncio.shield(fut), timeout)
        except asyncio.TimeoutError:
            how = "timeout"
        if how == "tagged":
            c.bye = self.bye
            return
        c.bye = self.bye
        if how == "closed":
            c.closed = True
        elif how == "desync":
            c.closed = True
            c.bye = True  # framing broken: already reported under C07; not a C06 matter
        else:
            c.timeout = True
        # the command never got its tagged reply
        self.cur = None
        self.cur_fut = None
        pend = self.split.pending()
        if pend and not self.desync:
            w.count("c07_stream")
            w.violate("C07", "unterminated_line", session=self.sid, pending=pend[:120], cmd=c.verb)
        else:
            # did its reply get glued to an earlier unterminated line?
            needle = c.tag.encode() + b" "
            for u in c.untagged + self.unsolicited[-6:]:
                raw = u.raw
                i = raw.find(needle, 1)
                if i > 0 and raw[i + len(needle) : i + len(needle) + 3] in (b"OK ", b"NO ", b"BAD"):
                    w.violate("C07", "unterminated_line", session=self.sid, glued=raw[:160], cmd=c.verb)
                    break

    # ---- IDLE
    async def idle_start(self, timeout=REPLY_TIMEOUT):
        c = CmdResult()
        self.ntag += 1
        c.tag = f"{self.sid}{self.ntag}"
        c.verb = "IDLE"
        c.line = c.tag.encode() + b" IDLE"
        c.sent_at = self.loop.time()
        if self.lost or self.transport is None:
            c.closed = True
            return c
        self.cur = c
        self.cur_fut = self.loop.create_future()
        self.cont_fut = self.loop.create_future()
        self.idling = True
        self.idle_done_sent = False
        self.world.note("C>" + self.sid, c.line)
        self._send_command(c.line)
        done, _ = await asyncio.wait({self.cont_fut, self.cur_fut}, timeout=timeout, return_when=asyncio.FIRST_COMPLETED)
        if self.cont_fut in done and self.cont_fut.result() != "closed":
            c.cont = 1
            self.idle_res = c
            self.cont_fut = None
            return c
        # no continuation: tagged reply (refused), closed, or timeout
        self.cont_fut = None
        if self.cur_fut is not None and self.cur_fut in done:
            if self.cur_fut.result() == "closed":
                c.closed = True
            self.idling = False
            return c
        if not done:
            c.timeout = True
            self.idling = False
            self.cur = None
            self.cur_fut = None
        return c

    async def idle_done(self, timeout=REPLY_TIMEOUT):
        c = self.idle_res
        if c is None or self.cur is not c:
            return c
        self.idle_done_sent = True
        c.sent_at = self.loop.time()  # latency of DONE -> tagged
        self.world.note("C>" + self.sid, b"DONE")
        self._send_command(b"DONE")
        await self._await_reply(c, timeout)
        self.idle_res = None
        self.idling = False
        return c

    def close(self):
        if self.transport is not None and not self.lost:
            self.transport.close()

    def abort(self):
        if self.transport is not None and not self.lost:
            self.transport.abort()


class Pop3Session:
    """Harness-side POP3 endpoint speaking the framed protocol of World A."""

    MULTI = {"LIST", "UIDL", "RETR", "TOP", "CAPA"}

    def __init__(self, world, sid, addr="10.0.0.2"):
        self.world = world
        self.loop = world.loop
        self.sid = sid
        self.addr = addr
        self.transport = None
        self.split = Pop3Splitter()
        self.lost = False
        self.waiter = None
        self.desync = False

    def connection_made(self, transport):
        self.transport = transport

    def data_received(self, data):
        self.split.buf += data
        if self.waiter is not None and not self.waiter.done():
            self.waiter.set_result(True)

    def eof_received(self):
        return False

    def connection_lost(self, exc):
        self.lost = True
        if self.waiter is not None and not self.waiter.done():
            self.waiter.set_result(False)

    def pause_writing(self):
        pass

    def resume_writing(self):
        pass

    def _frame(self, msg):
        return b"{%d}\n" % len(msg) + msg

    def hello(self):
        self.transport.write(self._frame(b"POP3"))

    async def _wait_more(self, deadline):
        if self.lost:
            return False
        self.waiter = self.loop.create_future()
        rem = deadline - self.loop.time()
        if rem <= 0:
            return False
        try:
            return await asyncio.wait_for(self.waiter, rem)
        except asyncio.TimeoutError:
            return False

    async def command(self, line, timeout=REPLY_TIMEOUT):
        """Returns (status_line: bytes|None, lines: list[bytes]|None, closed)."""
        w = self.world
        if isinstance(line, str):
            line = line.encode("latin-1")
        if self.lost:
            return None, None, True
        w.note("P>" + self.sid, line)
        self.transport.write(self._frame(line))
        verb = line.split()[0].upper().decode("latin-1") if line.split() else ""
        nargs = len(line.split()) - 1
        deadline = self.loop.time() + timeout
        try:
            while True:
                st = self.split.take_line()
                if st is not None:
                    break
                if not await self._wait_more(deadline):
                    return None, None, self.lost
            multi = st.startswith(b"+OK") and (
                verb in ("RETR", "TOP", "CAPA") or (verb in ("LIST", "UIDL") and nargs == 0)
            )
            lines = None
            if multi:
                while True:
                    lines = self.split.take_multiline()
                    if lines is not None:
                        break
                    if not await self._wait_more(deadline):
                        w.violate("C20", "pop3_framing", session=self.sid, cmd=line[:40], why="multi-line reply not terminated")
                        return st, None, self.lost
            w.note("S>" + self.sid, st, None if lines is None else len(lines))
            return st, lines, False
        except Malformed as e:
            self.desync = True
            w.violate("C20", "pop3_framing", session=self.sid, cmd=line[:40], why=e.kind)
            return None, None, self.lost

    def close(self):
        if self.transport is not None and not self.lost:
            self.transport.close()

    def abort(self):
        if self.transport is not None and not self.lost:
            self.transport.abort()
