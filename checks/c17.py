"""C17 - the mailbox list follows CREATE/DELETE/RENAME/SUBSCRIBE history."""

from checks import _common
from harness import worlda

PROP = "C17"
CONFIG = worlda.base_config(
    rule="seeded sequential histories of CREATE/DELETE/RENAME (leaf, subtree, INBOX, onto existing, into own subtree)/SUBSCRIBE/UNSUBSCRIBE over a small name "
    "alphabet (spaces, regex metacharacters, INBOX case variants, mailboxes below inbox, SPECIAL-USE names; depth <= 3) with APPENDs so that RENAME has content to keep, "
    "LIST/LSUB reference x pattern combinations and LIST-EXTENDED forms, orderly restarts interleaved. LIST/LSUB are compared with a namespace "
    "model using an independent wildcard matcher; refused commands must leave the on-disk tree unchanged; renamed subtrees are probed for "
    "messages/UIDs/flags. Every fifth program issues the namespace commands from 2-3 sessions concurrently (latency swarm): at quiescence LIST equals the "
    "folders on disk, each name once, no symlink left, every listed mailbox selectable, and an orderly restart changes nothing. "
    "non-trivial = >=1 namespace mutation acknowledged OK; distinct = op-kind signatures",
    level_text="history search against an executable namespace reference model on the real per-user server (real sqlite, real MH directories, simulated "
    "time and I/O completion order); exploration, since histories and names are unbounded.",
)

W = {
    "select": 1.5, "append": 2, "store": 1, "create": 6, "delete": 4, "rename": 4, "subscribe": 3, "unsubscribe": 1.5, "list": 6, "lsub": 3,
    "status": 1, "noop": 1, "restart": 0.6, "close": 0.5, "wait": 0.3,
}


def profile(r, tier, index):
    return {
        "mailboxes": ["inbox", "a", "a/b"][: r.randint(1, 3)], "sessions": r.randint(1, 2), "weights": W, "init_hi": 3,
        "ops_lo": 8, "ops_hi": 40 if tier == "thorough" else 26, "mode": "sequential", "examine_p": 0.1, "gc_p": 0.3, "inbox_children_p": 0.6, "folder_scan_p": 0.3,
        # names that only differ in case, and names in which '_' (an SQL LIKE wildcard) stands where another name has a letter
        "name_alphabet": r.choice((["a", "b", "a b", "x.y", "p+q", "[z]"], ["a", "A", "a_b", "axb", "a b", "x.y"], ["a", "A", "b", "B", "a_b", "aXb"],
                                    # names that begin like INBOX are mailboxes of their own; "Inbox" as a first part is INBOX
                                    ["a", "inboxes", "Inbox", "inbox-old", "INBOX.x", "b"],
                                    # quoted specials: what is created is what is listed
                                    ["a", 'q"u', "b\\s", "a b", 'x\\"y', "b"])),
    }


CONC_W = {"create": 5, "delete": 4, "rename": 6, "subscribe": 1, "status": 2, "list": 2, "select": 1, "append": 1}


def conc_profile(r, tier, index):
    return {
        "mailboxes": ["inbox", "a", "a/b", "a/c", "b"][: r.randint(3, 5)], "sessions": r.randint(2, 3), "weights": CONC_W, "init_hi": 2,
        "ops_lo": 4, "ops_hi": 14, "mode": "concurrent", "compare": False, "quiet_p": 0.05, "gc_p": 0.0, "name_alphabet": ["a", "b", "c", "z", "b1", "c d"],
    }


_gen_seq, execute, simplifications = _common.make(PROP, profile, CONFIG)


def _post_conc(prog, r, tier, prof):
    for op in prog["ops"]:
        op["when"] = {"delay": r.choice((0.0, 0.0, 0.0, 0.001, 0.01, 0.05, 0.2))}
        op.pop("bare", None)
    prog["ns_quiescent"] = True
    prog["family"] = "ns-concurrent"
    return prog


_gen_conc, _, _ = _common.make(PROP, conc_profile, CONFIG, _post_conc)


def _gen_rename_vs_scan(seed, tier, index, kf):
    """RENAME of a tree of several mailboxes on a slow disk while the server's own periodic scan for new folders (every
    0.5-2 s here, 90 s in production) comes round: a sequential history, the only other actor is the server itself."""
    import random

    prog = _gen_seq(seed, tier, index, kf)
    r = random.Random(seed ^ 0x5CA7)
    s0 = prog["sessions"][0]["id"]
    kids = r.sample(["k1", "k2", "k3", "k4", "k5", "k1/m", "k2/m"], r.randint(3, 6))
    ops = [{"s": s0, "op": "create", "name": "tree/" + k} for k in sorted(kids)]
    ops.append({"s": s0, "op": "append", "mbox": "tree", "tok": 900, "flags": [], "date": 1650000900, "shape": "plain"})
    ops.append({"actor": "driver", "op": "wait", "dt": r.choice((0.3, 1.1, 2.7))})
    ops.append({"s": s0, "op": "rename", "name": "tree", "to": r.choice(("wood", "x.y/wood", "a b/wood"))})
    ops.append({"s": s0, "op": "list", "ref": "", "pat": "*"})
    ops.append({"actor": "life", "op": "restart", "kind": "cancel"})
    ops.append({"s": s0, "op": "list", "ref": "", "pat": "*"})
    prog["ops"] = ops
    prog["latency"] = {"exec": r.choice(("small", "slow")), "db": r.choice(("slow", "wide", "bimodal")), "net": "zero"}
    prog["knobs"] = dict(prog.get("knobs") or {}, folder_scan_every=r.choice((0.3, 0.5, 1.0, 2.0)))
    prog["probe_p"] = 1.0
    prog["family"] = "rename-vs-scan"
    return prog


def generate(seed, tier, index, kf):
    # every fifth program: the namespace commands come from 2-3 sessions at once
    if index % 5 == 4:
        return _gen_conc(seed, tier, index, kf)
    if index % 20 == 13:
        return _gen_rename_vs_scan(seed, tier, index, kf)
    return _gen_seq(seed, tier, index, kf)

