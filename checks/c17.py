"""C17 - the mailbox list follows CREATE/DELETE/RENAME/SUBSCRIBE history."""

from checks import _common
from harness import worlda

PROP = "C17"
CONFIG = worlda.base_config(
    rule="seeded sequential histories of CREATE/DELETE/RENAME (leaf, subtree, INBOX, onto existing, into own subtree)/SUBSCRIBE/UNSUBSCRIBE over a small name "
    "alphabet (spaces, regex metacharacters, INBOX case variants, mailboxes below inbox, SPECIAL-USE names; depth <= 3) with APPENDs so that RENAME has content to keep, "
    "LIST/LSUB reference x pattern combinations and LIST-EXTENDED forms, orderly restarts interleaved. LIST/LSUB are compared with a namespace "
    "model using an independent wildcard matcher; refused commands must leave the on-disk tree unchanged; renamed subtrees are probed for "
    "messages/UIDs/flags. non-trivial = >=1 namespace mutation acknowledged OK; distinct = op-kind signatures",
    level_text="history search against an executable namespace reference model on the real per-user server (real sqlite, real MH directories, simulated "
    "time and I/O completion order); exploration, since histories and names are unbounded.",
)

W = {
    "select": 1.5, "append": 2, "store": 1, "create": 6, "delete": 4, "rename": 4, "subscribe": 3, "unsubscribe": 1.5, "list": 6, "lsub": 3,
    "status": 1, "noop": 1, "restart": 0.6, "close": 0.5, "wait": 0.3,
}


def profile(r, tier, index):
    return {
        "mailboxes": ["inbox", "a", "a/b"][: r.randint(1, 3)], "sessions": r.randint(1, 2), "weights": W, "init_hi": 3,
        "ops_lo": 8, "ops_hi": 40 if tier == "thorough" else 26, "mode": "sequential", "examine_p": 0.1, "gc_p": 0.3, "inbox_children_p": 0.6,
        # names that only differ in case, and names in which '_' (an SQL LIKE wildcard) stands where another name has a letter
        "name_alphabet": r.choice((["a", "b", "a b", "x.y", "p+q", "[z]"], ["a", "A", "a_b", "axb", "a b", "x.y"], ["a", "A", "b", "B", "a_b", "aXb"],
                                    # names that begin like INBOX are mailboxes of their own; "Inbox" as a first part is INBOX
                                    ["a", "inboxes", "Inbox", "inbox-old", "INBOX.x", "b"],
                                    # quoted specials: what is created is what is listed
                                    ["a", 'q"u', "b\\s", "a b", 'x\\"y', "b"])),
    }


generate, execute, simplifications = _common.make(PROP, profile, CONFIG)
