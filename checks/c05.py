"""C05 - only the addressed messages are removed, copied or moved."""

from checks import _common
from harness import worlda

PROP = "C05"
CONFIG = worlda.base_config(
    rule="seeded sequential histories from 2-3 sessions (one often EXAMINE) of \\Deleted subsets, EXPUNGE / UID EXPUNGE <set> / CLOSE, COPY and MOVE with "
    "every source/destination pair (same mailbox, missing mailbox, a \\Noselect placeholder), message/UID sets with non-existent UIDs, duplicates and out-of-range numbers; "
    "after every op the observer's UID FETCH 1:* (FLAGS INTERNALDATE BODY.PEEK[]) of source and destination is compared with the model "
    "(token multiset, UID order, flags, dates, COPYUID/APPENDUID pairing; refused or read-only commands must leave both unchanged). "
    "A second family (35%) runs the sessions concurrently (UID COPY / UID MOVE / EXPUNGE racing each other under the latency swarm) with the oracle that "
    "holds under every schedule: the source UIDs a COPYUID reports are among those the command's UID set named (copy_hit_wrong_message), and the "
    "sessions' views agree with the server at quiescence; in a third family (15%) UID EXPUNGE <explicit set> is the only removing command, so every UID "
    "that some session was shown and that is gone at the end must have been named by one of them (expunged_unaddressed). non-trivial = >=1 add/remove op acknowledged OK; distinct = distinct op-kind signatures",
    level_text="full-content conservation against an executable reference model after every operation of seeded histories on the real per-user "
    "server; exploration, because mailbox contents, sets and command sequences are unbounded.",
)

W = {
    "select": 2.5, "append": 2.5, "store": 2, "delete_flag": 5, "fetch": 2, "search": 0.5, "expunge": 4, "copy": 4, "move": 4,
    "noop": 2, "learn": 1, "deliver": 1, "wait": 0.5, "close": 1.5,
}


CONC_W = {
    "select": 1, "append": 1, "store": 1, "delete_flag": 5, "fetch": 1.5, "expunge": 5, "copy": 4, "move": 5, "noop": 1.5, "close": 0.7, "deliver": 0.5,
}


UIDEXP_W = {"select": 0.7, "append": 1, "store": 1, "delete_flag": 6, "fetch": 2, "expunge": 6, "copy": 1, "noop": 2, "deliver": 0.5}


def profile(r, tier, index):
    x = r.random()
    if x < 0.15:
        # UID EXPUNGE <explicit set> is the only way a message can go away in these runs
        return {
            "mailboxes": ["inbox", "work"][: r.randint(1, 2)], "sessions": r.randint(2, 3), "weights": UIDEXP_W, "init_lo": 5, "init_hi": 10,
            "ops_lo": 12, "ops_hi": 40 if tier == "thorough" else 28, "mode": "concurrent", "compare": False, "bad_set_p": 0.0, "examine_p": 0.0, "quiet_p": 0.1,
            "uidexpunge_p": 1.0, "uidexpunge_only": True,
        }
    if x < 0.45:
        return {
            "mailboxes": ["inbox", "work"], "sessions": r.randint(2, 3), "weights": CONC_W, "init_lo": 4, "init_hi": 9,
            "ops_lo": 12, "ops_hi": 40 if tier == "thorough" else 28, "mode": "concurrent", "compare": False, "bad_set_p": 0.03, "examine_p": 0.05, "quiet_p": 0.1,
        }
    return {
        "mailboxes": ["inbox", "work", "a/b"][: r.randint(2, 3)], "sessions": r.randint(2, 3), "weights": W, "init_hi": 7,
        "ops_lo": 8, "ops_hi": 40 if tier == "thorough" else 28, "mode": "sequential", "probe_p": r.choice((1.0, 1.0, 0.35, 0.1)), "bad_set_p": 0.12, "examine_p": 0.3,
    }


def post(prog, r, tier, prof):
    if r.random() < 0.3:
        _common.inject_stealth(prog, r, 0.2)
    if prog["mode"] == "sequential" and r.random() < 0.2 and prog.get("sessions"):
        # a destination that is a \Noselect placeholder (deleted while it has a child): APPEND/COPY/MOVE into it are refused
        # and write nothing
        s0 = prog["sessions"][0]["id"]
        victim = r.choice([m for m in prof["mailboxes"] if m != "inbox"])
        i = r.randint(0, max(0, len(prog["ops"]) // 2))
        pre = [{"s": s0, "op": "create", "name": victim + "/kid"}, {"s": s0, "op": "delete", "name": victim}]
        tail = []
        for op in prog["ops"][i:]:
            tail.append(op)
            if op.get("op") in ("copy", "move") and r.random() < 0.5:
                op["dst"] = victim
            if op.get("op") == "append" and r.random() < 0.5:
                op["mbox"] = victim
        prog["ops"] = prog["ops"][:i] + pre + tail
    if prog["mode"] == "concurrent":
        for op in prog["ops"]:
            op["when"] = {"delay": r.choice((0.0, 0.0, 0.0, 0.001, 0.01, 0.05, 0.3))}
    return prog


generate, execute, simplifications = _common.make(PROP, profile, CONFIG, post)
