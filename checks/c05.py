"""C05 - only the addressed messages are removed, copied or moved."""

from checks import _common
from harness import worlda

PROP = "C05"
CONFIG = worlda.base_config(
    rule="seeded sequential histories from 2-3 sessions (one often EXAMINE) of \\Deleted subsets, EXPUNGE / UID EXPUNGE <set> / CLOSE, COPY and MOVE with "
    "every source/destination pair (same mailbox, missing mailbox), message/UID sets with non-existent UIDs, duplicates and out-of-range numbers; "
    "after every op the observer's UID FETCH 1:* (FLAGS INTERNALDATE BODY.PEEK[]) of source and destination is compared with the model "
    "(token multiset, UID order, flags, dates, COPYUID/APPENDUID pairing; refused or read-only commands must leave both unchanged). "
    "non-trivial = >=1 add/remove op acknowledged OK; distinct = distinct op-kind signatures",
    level_text="full-content conservation against an executable reference model after every operation of seeded histories on the real per-user "
    "server; exploration, because mailbox contents, sets and command sequences are unbounded.",
)

W = {
    "select": 2.5, "append": 2.5, "store": 2, "delete_flag": 5, "fetch": 2, "search": 0.5, "expunge": 4, "copy": 4, "move": 4,
    "noop": 2, "learn": 1, "deliver": 1, "wait": 0.5, "close": 1.5,
}


def profile(r, tier, index):
    return {
        "mailboxes": ["inbox", "work", "a/b"][: r.randint(2, 3)], "sessions": r.randint(2, 3), "weights": W, "init_hi": 7,
        "ops_lo": 8, "ops_hi": 40 if tier == "thorough" else 28, "mode": "sequential", "bad_set_p": 0.12, "examine_p": 0.3,
    }


generate, execute, simplifications = _common.make(PROP, profile, CONFIG)
