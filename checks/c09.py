"""C09 - mailbox names cannot reach outside the user's mail directory."""

import asyncio
import hashlib
import mailbox as stdmailbox
import os
import random

from gen import corpus, mailstore
from harness import worlda
from harness.interp import Interp, quote
from sim.seams import FS

PROP = "C09"
CONFIG = worlda.base_config(
    rule="the run directory is a jail: jail/alice/Mail (the user), jail/bob/Mail (decoy neighbour with its own folder tree, distinctive message tokens, "
    "message counts and asimap.db), jail/alice/Mail.old and jail/alice/Mail-archive (siblings whose path begins with the mail directory's path), jail/secret.txt and jail/alice/outside/. Every command that takes a mailbox name, reference or pattern (SELECT, "
    "EXAMINE, CREATE, DELETE, RENAME both positions, SUBSCRIBE, UNSUBSCRIBE, STATUS, APPEND, COPY, MOVE, LIST/LSUB reference and pattern, LIST-EXTENDED "
    "pattern lists) is issued with names from a hostile pool ('..', '../bob/Mail/inbox', 'a/../../bob/...', the absolute jail path, '//abs', './..', "
    "...) in atom, quoted, synchronising-literal and literal+ encodings, interleaved with benign namespace ops, also after a restart. Oracle at the "
    "storage seam: the audit hook and os.stat wrapper record every path the server's own tasks touch - any path outside alice/Mail is an escape; a "
    "recursive snapshot of everything outside alice/Mail must not change; no response may contain a decoy token, folder name or count; such commands "
    "must be refused. non-trivial = >=3 hostile commands answered; distinct = op signatures",
    level_text="the simulator owns the storage seam, so containment is checked on the actual file-system calls of the real server (attributed to the "
    "server's tasks through a context variable), not only on responses; the name language is an input space that is sampled.",
)

HOSTILE = [
    "..", "../bob/Mail/inbox", "../bob/Mail", "../../secret.txt", "../outside", "../outside/new", "a/../../bob/Mail/inbox", "inbox/../../outside",
    "./..", "../bob/Mail/lists/dev", "inbox/../../../bob/Mail/inbox", "{JAIL}/bob/Mail/inbox", "/{JAIL}/bob/Mail/inbox", "//{JAIL}/bob/Mail/inbox",
    "{JAIL}/secret.txt", "../../alice/outside", "a/../..", "..//bob/Mail/inbox", "../bob/Mail/inbox/", "../bob/Mail/new-by-alice", "../outside/created",
    "../alice/Mail/../../bob/Mail/inbox",
    # siblings whose path merely *begins* with the mail directory's path (a prefix test on strings lets them through)
    "../Mail.old/inbox", "../Mail.old", "../Mail.old/created-by-alice", "//{JAIL}/alice/Mail.old/inbox", "{JAIL}/alice/Mail.old/inbox", "a/../../Mail.old/inbox",
    "../Mail-archive/inbox", "../Mail2",
]
# look-alikes that stay inside the mail directory: any outcome is fine, but the seam oracle still applies
LOOKALIKE = ["....//bob", "..\\bob", "%2e%2e/bob/Mail/inbox", "a/../b", "a/./b", "...", "a/..b/c", "..a"]
TEMPLATES = [
    "SELECT {n}", "EXAMINE {n}", "CREATE {n}", "DELETE {n}", "RENAME {n} {benign}", "RENAME {benign_existing} {n}", "SUBSCRIBE {n}", "UNSUBSCRIBE {n}",
    "STATUS {n} (MESSAGES UIDNEXT UNSEEN)", "APPEND {n} {lit}", "COPY 1 {n}", "MOVE 1 {n}", "UID COPY 1:* {n}", "LIST {n} *", "LIST {n} %", 'LIST "" {n}',
    'LIST "" {npat}', "LSUB {n} *", 'LSUB "" {npat}', 'LIST "" ({npat} "inbox")', "LIST (SUBSCRIBED) {n} *", 'LIST "" {npat} RETURN (STATUS (MESSAGES))',
    "LIST {n} {npat}",
]
DECOY_TOKS = [9001, 9002, 9003, 9004, 9005, 9006, 9007]


def encode_name(r, name):
    """atom / quoted / literal / literal+ encodings of a mailbox name."""
    nb = name.encode("latin-1", "replace")
    x = r.random()
    safe_atom = all(33 <= c < 127 and c not in b'(){%*"\\]' for c in nb) and nb
    if x < 0.25 and safe_atom:
        return nb
    if x < 0.6:
        return quote(name).encode("latin-1", "replace")
    if x < 0.8:
        return b"{%d}\r\n" % len(nb) + nb
    return b"{%d+}\r\n" % len(nb) + nb


class JailInterp(Interp):
    def build_store(self):
        super().build_store()
        jail = self.ctx.jail
        self.outside_root = jail
        bob = os.path.join(jail, "bob", "Mail")
        for folder, toks in (("inbox", DECOY_TOKS[:3]), ("lists/dev", DECOY_TOKS[3:5])):
            path = os.path.join(bob, folder)
            os.makedirs(path, exist_ok=True)
            for i, t in enumerate(toks):
                with open(os.path.join(path, str(i + 1)), "wb") as f:
                    f.write(corpus.build("plain", t))
            stdmailbox.MH(path, create=False).set_sequences({"unseen": [1]})
        # siblings of the mail directory whose names start with its name
        for sib, toks in (("Mail.old", DECOY_TOKS[5:6]), ("Mail-archive", DECOY_TOKS[6:7])):
            path = os.path.join(jail, "alice", sib, "inbox")
            os.makedirs(path, exist_ok=True)
            for i, t in enumerate(toks):
                with open(os.path.join(path, str(i + 1)), "wb") as f:
                    f.write(corpus.build("plain", t))
            stdmailbox.MH(path, create=False).set_sequences({"unseen": [1]})
        with open(os.path.join(bob, "asimap.db"), "wb") as f:
            f.write(b"decoy database")
        with open(os.path.join(jail, "secret.txt"), "wb") as f:
            f.write(b"TOP SECRET " + corpus.tokname(9009).encode())
        os.makedirs(os.path.join(jail, "alice", "outside"), exist_ok=True)
        with open(os.path.join(jail, "alice", "outside", "note"), "wb") as f:
            f.write(b"outside the mail root")
        self.escapes = []
        mail = self.maildir
        tmp = os.path.join(self.ctx.root, "tmp")

        def rec(event, p):
            ap = os.path.normpath(p if os.path.isabs(p) else os.path.join(os.getcwd(), p))
            if ap == mail or ap.startswith(mail + "/"):
                return
            if ap.startswith(tmp + "/") or ap == tmp:
                return
            if ap.startswith(jail + "/") or ap == jail or (p.startswith(mail) and not ap.startswith(mail)):
                self.escapes.append((event, ap.replace(self.ctx.root, "<RUN>")))

        FS.access = rec

    def outside_snapshot(self):
        out = []
        mail = self.maildir
        for root, dirs, files in os.walk(self.ctx.jail, followlinks=False):
            dirs.sort()
            if root == mail or root.startswith(mail + "/"):
                dirs[:] = []
                continue
            if os.path.join(root) == os.path.dirname(mail):
                dirs[:] = [d for d in dirs if os.path.join(root, d) != mail]
            for f in sorted(files):
                fp = os.path.join(root, f)
                try:
                    with open(fp, "rb") as fh:
                        h = hashlib.sha1(fh.read()).hexdigest()[:10]
                except OSError:
                    h = "?"
                out.append((os.path.relpath(fp, self.ctx.jail), h))
            out.append((os.path.relpath(root, self.ctx.jail) + "/", "dir"))
        return sorted(out)

    async def op_hostile(self, op):
        sess, ms = self.sess(op)
        if sess is None or ms.dead:
            return
        line = op["line"].encode("latin-1") if isinstance(op["line"], str) else op["line"]
        before = self.outside_snapshot()
        self.escapes.clear()
        r = await self.run_cmd(sess, ms, line)
        await asyncio.sleep(0.05)
        self.C("c09_hostile_command")
        self.ctx.nontrivial = True
        if self.escapes:
            kinds = sorted({e for e, _ in self.escapes})
            self.V("C09", "path_escape", cmd=line[:100], accesses=self.escapes[:6], kinds=kinds)
            self.escapes.clear()
        after = self.outside_snapshot()
        if after != before:
            self.V("C09", "outside_modified", cmd=line[:100], removed=[x for x in before if x not in after][:5], added=[x for x in after if x not in before][:5])
        leak = None
        for u in r.untagged + ([] if r.status is None else []):
            raw = u.raw
            for t in DECOY_TOKS + [9009]:
                if corpus.tokname(t).encode() in raw:
                    leak = ("token", t)
            if b"TOP SECRET" in raw or b"decoy database" in raw:
                leak = ("name", raw[:80])
        if r.text and ("TOP SECRET" in r.text):
            leak = ("text", r.text[:80])
        self.C("c09_reveal")
        if leak:
            self.V("C09", "outside_revealed", cmd=line[:100], leak=leak)
        verb = (r.verb or "").upper()
        if r.status is not None and verb not in ("LIST", "LSUB") and op.get("must_refuse", True):
            self.C("c09_refused")
            if r.ok:
                self.V("C09", "escape_not_refused", cmd=line[:100], reply=r.brief())
                if verb in ("SELECT", "EXAMINE"):
                    # look at what it shows
                    f = await self.run_cmd(sess, ms, "FETCH 1:* (BODY.PEEK[])")
                    for u in f.untagged:
                        for t in DECOY_TOKS:
                            if corpus.tokname(t).encode() in u.raw:
                                self.V("C09", "outside_revealed", cmd="FETCH after " + line[:60].decode("latin-1", "replace"), leak=("token", t))
                                break
                    ms.selected = None
                    await self.run_cmd(sess, ms, "UNSELECT")
        elif verb in ("LIST", "LSUB") and r.ok:
            rows = [u for u in r.untagged if u.kind in ("LIST", "LSUB")]
            for name, _attrs in self.parse_list(r, verb):
                if name.startswith("../") or name == ".." or name.startswith("/") or "/../" in name or name.endswith("/.."):
                    self.V("C09", "outside_revealed", cmd=line[:100], leak=("list", name[:100]))
                    break


def generate(seed, tier, index, kf):
    r = random.Random(seed)
    sids = ["sa", "sb"][: r.randint(1, 2)]
    store, tok = mailstore.initial_store(r, ["inbox", "a", "a/deep/er"], 1, 4)
    ops = []
    n = r.randint(10, 30)
    for _ in range(n):
        s = r.choice(sids)
        x = r.random()
        if x < 0.1:
            ops.append({"s": s, "op": "select", "mbox": r.choice(["inbox", "a"]), "examine": False})
        elif x < 0.18:
            ops.append({"s": s, "op": r.choice(("create", "delete", "subscribe")), "name": r.choice(["b", "a/x", "a", "c/d"])})
        elif x < 0.22:
            ops.append({"actor": "life", "op": "restart", "kind": "cancel", "compare": False})
        else:
            look = r.random() < 0.15
            name = r.choice(LOOKALIKE if look else HOSTILE)
            t = r.choice(TEMPLATES)
            nb = lambda nm: encode_name(r, nm)  # noqa: E731
            lit = b"{17}\r\nX-Tok: T7777x\r\n\r\nx"
            line = t.encode()
            line = line.replace(b"{n}", b"\x00N\x00").replace(b"{npat}", b"\x00P\x00").replace(b"{benign}", b'"newname%d"' % r.randint(1, 5))
            line = line.replace(b"{benign_existing}", r.choice((b"a", b'"a/deep/er"', b"inbox"))).replace(b"{lit}", lit)
            name_enc = nb(name)
            pat = name + r.choice(("", "/*", "*", "/%", "%"))
            line = line.replace(b"\x00N\x00", b"\x01NAME\x01").replace(b"\x00P\x00", b"\x01PAT\x01")
            ops.append({"s": s, "op": "hostile", "line_t": line.decode("latin-1"), "name": name, "pat": pat, "enc": r.random(),
                        # "/x" is namespace-relative (one leading separator is not part of the name): stays inside
                        "must_refuse": not look and not ((name.startswith("/") or name.startswith("{JAIL}")) and not name.startswith("//"))})
    prog = {
        "format": 1, "seed": seed, "world": "A", "mode": "sequential", "compare": False, "latency": mailstore.swarm_latency(r, 0.5), "knobs": {},
        "buggify": {}, "store": store, "sessions": [{"id": s, "proto": "imap"} for s in sids], "ops": ops, "props": [PROP],
    }
    return prog


def execute(program, opts):
    # late binding of names to the run's jail path (keeps programs path independent)
    def prep(ctx_jail, program):
        ops = []
        for op in program["ops"]:
            if op.get("op") == "hostile" and "line_t" in op:
                r = random.Random(int(op.get("enc", 0.5) * 1e9))
                name = op["name"].replace("{JAIL}", ctx_jail)
                pat = op["pat"].replace("{JAIL}", ctx_jail)
                line = op["line_t"].encode("latin-1")
                line = line.replace(b"\x01NAME\x01", encode_name(r, name)).replace(b"\x01PAT\x01", encode_name(r, pat))
                # does the name denote something outside the mail directory?  (one
                # leading hierarchy separator is namespace syntax, not part of the name)
                norm = os.path.normpath(name) if name else name
                norm = norm[1:] if norm.startswith("/") else norm
                outside = bool(norm) and (os.path.isabs(norm) or norm == ".." or norm.startswith("../"))
                # (an unquoted name that starts with "inbox" is cut after that word by the
                # command parser - C08 territory, harmless for containment: not demanded here)
                if name.lower().startswith("inbox"):
                    outside = False
                op = dict(op, line=line.decode("latin-1"), must_refuse=outside)
            ops.append(op)
        return dict(program, ops=ops)

    class J(JailInterp):
        def __init__(self, ctx):
            ctx.program = prep(ctx.jail, ctx.program)
            super().__init__(ctx)

    return worlda.execute(program, opts, interp_cls=J)


simplifications = worlda.simplifications
