"""C07 - everything the server sends is well-formed IMAP."""

import random

from gen import corpus, mailstore
from harness import worlda

PROP = "C07"
CONFIG = worlda.base_config(
    rule="every server->client byte of every run of every check goes through the strict response tokenizer; this check adds a dedicated family: a corpus with "
    "double quotes, backslashes, 8-bit bytes, RFC 2047 words, folded lines, missing fields, nested multiparts, message/rfc822 and odd line endings fetched as "
    "ENVELOPE / BODYSTRUCTURE / BODY[...] (incl. partial fetches <origin.count> starting before, at and beyond the end of the section) by 2 sessions while other sessions STORE/EXPUNGE/APPEND (several tasks write to one session's stream); mailbox "
    "names and keywords with spaces, quotes and backslashes where the parser admits them (LIST/LSUB/STATUS); error paths reachable only with a clock and "
    "faults (non-DONE input inside IDLE incl. literals, commands on deleted mailboxes, damaged commands, stalled client). ENVELOPE subject/message-id "
    "strings are decoded and compared with the BODY[HEADER] the same FETCH returned. non-trivial = >=1 structured fetch; distinct = op signatures",
    level_text="stream well-formedness as an always-on invariant plus seeded error-path and multi-writer programs; the header byte language is sampled through "
    "the corpus generator, not covered.",
)
NAMES = ["cr\rname", "lf\nname", "crlf\r\nA1 OK fake", 'q"uote', "back\\slash", "sp ace", "per%cent", "st*ar", "br{ace", "pa(ren", "am&p", "tab\tname", "uni-\xe9", "dq\"\"", "end\\", "a/b\"c"]
KWS = ["kw1", "$Fwd", "k[w", "k'w", "k=w;", "k#w", "k~w", "a]b"]  # "a]b": not an atom for the reader of a flag list, must not come back as a flag
ITEMS = [
    "ENVELOPE", "BODYSTRUCTURE", "BODY", "(ENVELOPE BODYSTRUCTURE UID FLAGS INTERNALDATE RFC822.SIZE)", "BODY[HEADER]", "BODY[1]", "BODY[1.MIME]",
    "BODY[TEXT]<0.10>", "BODY.PEEK[HEADER.FIELDS (Subject From \"X-Tok\")]", "BODY[HEADER.FIELDS.NOT (Subject)]", "RFC822.HEADER", "BODY[2.1]", "BODY[1.1.1]",
    "FULL", "ALL", "(BODY[]<5.1000> BODY[TEXT])", "BODY[1.HEADER]", "BODY[1.TEXT]",
    'BODY.PEEK[HEADER.FIELDS ("a)b" "x y")]', 'BODY.PEEK[HEADER.FIELDS ("q\\"r" Subject)]', "BODY.PEEK[HEADER.FIELDS.NOT (\"]\" From)]", "BODY.PEEK[HEADER.FIELDS ({3}\r\nX-T)]",
]
SECTIONS = ["", "TEXT", "HEADER", "1", "1.MIME", "2", "1.1", "HEADER.FIELDS (Subject)"]


def partial_item(r):
    """BODY[section]<origin.count> with origins before, at and (far) beyond the end of the section"""
    origin = r.choice((0, 1, 7, 50, 200, 256, 1000, 5000, 100000, 4294967295))
    count = r.choice((1, 2, 10, 100, 65536, 4294967295))
    return f"BODY{r.choice(('', '.PEEK'))}[{r.choice(SECTIONS)}]<{origin}.{count}>"


IDLE_NOISE = ["NOOP", "x IDLE", "idle", "junk junk", "a APPEND inbox {5}\r\nhello", "\"", "DONE DONE", "a1 FETCH 1 (BODY[])", "{3}\r\nabc", "line\rwith\rcr"]


def generate(seed, tier, index, kf):
    r = random.Random(seed)
    sids = ["sa", "sb", "sc"][: r.randint(2, 3)]
    store, tok = mailstore.initial_store(r, ["inbox", "work"], 2, 8, kw=None, shapes=corpus.SHAPES)
    ops = []
    sel = {s: None for s in sids}
    created = []
    n = r.randint(12, 36)
    for _ in range(n):
        s = r.choice(sids)
        x = r.random()
        if sel[s] is None or x < 0.08:
            m = r.choice(["inbox", "work"])
            ops.append({"s": s, "op": "select", "mbox": m, "examine": r.random() < 0.2})
            sel[s] = m
        elif x < 0.30:
            ops.append({"s": s, "op": "envelope", "uid": r.random() < 0.5, "set": {"all": True} if r.random() < 0.5 else {"pos": [r.randint(1, 6)]}})
        elif x < 0.48:
            ops.append({"s": s, "op": "fetch", "uid": r.random() < 0.5, "set": {"all": True} if r.random() < 0.4 else {"pos": [r.randint(1, 6)]}, "items": partial_item(r) if r.random() < 0.25 else r.choice(ITEMS)})
        elif x < 0.56:
            name = r.choice(NAMES)
            if r.random() < 0.5:
                # literal encoding: the octets reach the server undecoded
                nb = name.encode("latin-1")
                ops.append({"s": s, "op": "raw", "line": b"CREATE {%d%s}\r\n" % (len(nb), b"+" if r.random() < 0.5 else b"") + nb, "mutates": False})
                ops[-1]["line"] = ops[-1]["line"].decode("latin-1")
                if r.random() < 0.5:
                    ops.append({"s": s, "op": "raw", "line": (b"STATUS {%d}\r\n" % len(nb) + nb + b" (MESSAGES UIDNEXT)").decode("latin-1"), "mutates": False})
                if r.random() < 0.5:
                    ops.append({"s": s, "op": "raw", "line": (b"SUBSCRIBE {%d}\r\n" % len(nb) + nb).decode("latin-1"), "mutates": False})
                if r.random() < 0.5:
                    # error texts that echo a name that does not exist
                    ghost = b"no-such-" + nb
                    verb = r.choice((b"STATUS {%d}\r\n%s (MESSAGES)", b"DELETE {%d}\r\n%s", b"RENAME {%d}\r\n%s other", b"COPY 1 {%d}\r\n%s", b"UNSUBSCRIBE {%d}\r\n%s"))
                    ops.append({"s": s, "op": "raw", "line": (verb % (len(ghost), ghost)).decode("latin-1"), "mutates": False})
            else:
                ops.append({"s": s, "op": "create", "name": name})
                created.append(name)
        elif x < 0.66:
            ops.append({"s": s, "op": r.choice(("list", "lsub")), "ref": "", "pat": r.choice(("*", "%", "q*", "*\\*"))})
        elif x < 0.70 and created:
            nm = r.choice(created)
            ops.append({"s": s, "op": r.choice(("status", "subscribe")), **({"mbox": nm} if r.random() < 0.5 else {"name": nm})})
            if "mbox" in ops[-1]:
                ops[-1]["op"] = "status"
            else:
                ops[-1]["op"] = "subscribe"
        elif x < 0.76:
            tok += 1
            ops.append({"s": s, "op": "append", "mbox": r.choice(["inbox", "work"] + created[:2]), "tok": tok, "flags": [r.choice(KWS)], "date": 1_650_000_000 + tok * 1013, "shape": r.choice(corpus.SHAPES)})
        elif x < 0.82:
            ops.append({"s": s, "op": "store", "uid": r.random() < 0.5, "set": {"pos": [r.randint(1, 5)]}, "how": r.choice("+-="), "flags": [r.choice(KWS + ["\\Deleted", "\\Seen"])], "silent": False})
        elif x < 0.86:
            ops.append({"s": s, "op": "expunge"})
        elif x < 0.92:
            ops.append({"s": s, "op": "idle"})
            for _k in range(r.randint(0, 2)):
                ops.append({"s": s, "op": "raw_in_idle", "line": r.choice(IDLE_NOISE)})
            ops.append({"s": s, "op": "done"})
        elif x < 0.96:
            ops.append({"s": s, "op": "raw", "line": r.choice(("UID COPY 99999 inbox", "UID MOVE 99999 work", "UID COPY 99998:99999 \"work\"", "FETCH 1 (BODY[", "XYZZY \"a\\\"b\"", "LIST \"\" \"a\\\"*\"", 'STATUS "q\\"uote" (MESSAGES)', "SEARCH HEADER \"X\\\"Y\" \"\"", "LOGIN \"a\\\\b\" x", "ID (\"k\" \"v\\\"w\")", "SEARCH SUBJECT nomatchatall", "UID SEARCH HEADER X-Nope zz", "FETCH 1 ()", "UID FETCH 1:* ()", "SEARCH UID 99999")), "mutates": False})
        else:
            ops.append({"actor": "agent", "op": "deliver", "mbox": r.choice(["inbox", "work"]), "count": 1, "unseen": True, "shape": r.choice(corpus.SHAPES)})
    mode = "concurrent" if r.random() < 0.5 else "sequential"
    big = r.random() < 0.12
    if big:
        # one push larger than any socket buffer to a slow reader, while other tasks write to the same session:
        # a session fetches a 400 KiB message again and again, the others NOOP / STORE, an MH agent delivers
        mode = "concurrent"
        mb = store["mailboxes"][0]
        tok += 1
        mb["msgs"].append({"tok": tok, "key": (mb["msgs"][-1]["key"] + 1) if mb["msgs"] else 1, "flags": [], "date": 1_690_000_000 + tok * 977, "shape": "big"})
        nbig = len(mb["msgs"])
        ops = [{"s": s_, "op": "select", "mbox": mb["name"], "examine": False} for s_ in sids]
        reader = sids[0]
        for _k in range(r.randint(2, 4)):
            ops.append({"s": reader, "op": "fetch", "uid": r.random() < 0.5, "set": {"pos": [nbig]}, "items": r.choice(("(BODY.PEEK[])", "(RFC822)", "(UID BODY.PEEK[TEXT])"))})
        for s_ in sids[1:]:
            for _k in range(r.randint(6, 14)):
                x = r.random()
                if x < 0.6:
                    ops.append({"s": s_, "op": "noop"})
                else:
                    ops.append({"s": s_, "op": "store", "uid": r.random() < 0.5, "set": {"pos": [r.randint(1, max(1, nbig - 1))]}, "how": r.choice("+-"), "flags": [r.choice(KWS)], "silent": False})
        for _k in range(r.randint(3, 8)):
            ops.append({"actor": "agent", "op": "deliver", "mbox": mb["name"], "count": 1, "unseen": True, "shape": "plain", "advance": r.random() < 0.5})
    flood = (not big) and r.random() < 0.08
    if flood:
        # an idling session behind a slow link is sent far more than a socket buffer of flag notifications
        # (another session stores dozens of long keywords on every message) and ends its IDLE meanwhile
        mode = "concurrent"
        sids = ["sa", "sb"]
        mb = store["mailboxes"][0]
        while len(mb["msgs"]) < 40:
            tok += 1
            mb["msgs"].append({"tok": tok, "key": (mb["msgs"][-1]["key"] + 1) if mb["msgs"] else 1, "flags": [], "date": 1_690_000_000 + tok * 977, "shape": "plain"})
        kws = ["K%02d%s" % (k, "x" * 56) for k in range(r.randint(30, 44))]
        ops = [{"s": s_, "op": "select", "mbox": mb["name"], "examine": False} for s_ in sids]
        for _k in range(r.randint(1, 2)):
            ops.append({"s": "sa", "op": "idle"})
            ops.append({"s": "sb", "op": "store", "uid": r.random() < 0.5, "set": {"all": True}, "how": "+", "flags": kws, "silent": r.random() < 0.5})
            ops.append({"s": "sa", "op": "done"})
            ops.append({"s": "sb", "op": "store", "uid": False, "set": {"all": True}, "how": "-", "flags": kws[: len(kws) // 2], "silent": False})
            ops.append({"s": "sa", "op": "noop"})
    prog = {
        "format": 1, "seed": seed, "world": "A", "mode": mode, "compare": False, "latency": mailstore.swarm_latency(r, 0.2), "knobs": {}, "buggify": {},
        "store": store, "sessions": [{"id": s, "proto": "imap"} for s in sids], "ops": ops, "props": [PROP],
    }
    if big or flood:
        prog["family"] = "big-push" if big else "idle-flood"
    if mode == "concurrent":
        for op in ops:
            op["when"] = {"delay": r.choice((0.0, 0.0, 0.001, 0.01, 0.1)) if not (big or flood) else r.choice((0.0, 0.05, 0.2, 0.5, 1.0))}
        if big or flood or r.random() < 0.15:
            prog["knobs"]["sock_buf"] = r.choice((128, 512, 2048))  # several writers to one slow session
        if big or flood:
            prog["latency"]["net"] = r.choice(("bimodal", "slow", "wide"))
    return prog


execute = worlda.execute
simplifications = worlda.simplifications
