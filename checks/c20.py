"""C20 - a POP3 session is a stable snapshot and deletes only on QUIT."""

import random

from gen import corpus, mailstore
from harness import worlda

PROP = "C20"
CONFIG = worlda.base_config(
    rule="seeded programs with one POP3 session (STAT, LIST, LIST n, UIDL, UIDL n, RETR, TOP n k, DELE, repeated DELE, RSET, NOOP, invalid numbers, QUIT or an "
    "abrupt disconnect) interleaved with 1-2 IMAP sessions that APPEND to and EXPUNGE from INBOX (often the last message, followed by a delivery that "
    "re-uses its MH number), RENAME the INBOX away and, with lowered pack knobs, make the folder get renumbered; message bodies with dot-lines, missing final newline, CRLF. "
    "Oracle: numbers/UIDL/sizes never change during the session, UIDL = IMAP UID, RETR n is -ERR or exactly the snapshot message (token and bytes equal "
    "IMAP BODY[]), announced = delivered octets, dot-stuffed termination, QUIT removes exactly the marked messages, RSET/drop removes nothing. "
    "Every sixth program runs the POP3 session through the real POP3 front-end (World B: pop3_server relaying to the real per-user server) over "
    "messages that include a 70 kB line, with several command lines (empty ones among them) in one write: every RETR arrives complete, terminated, "
    "with the announced octets and nothing else inside it. non-trivial = a POP3 session ran; distinct = op signatures",
    level_text="snapshot-isolation and delete-on-QUIT accounting for the real POP3 handler of the per-user server against the reference model, with IMAP "
    "mutations, deliveries and packing interleaved under seeded schedules; exploration.",
    expected_probes=["pop3_quit_removed", "deliveries"],
)
SHAPES = ["plain", "dot-lines", "no-final-newline", "crlf", "empty-body", "multipart", "long-line", "folded", "mp-no-boundary"]


def gen_pop(r, n):
    x = r.random()
    num = r.choice([1, 1, 2, 3, "last", "last", "beyond", 0, "abc", -1, "+1", "+2", "1_0", "0_1", "1e0", "huge", "1"])
    if x < 0.12:
        return {"verb": "STAT"}
    if x < 0.24:
        return {"verb": "LIST"} if r.random() < 0.6 else {"verb": "LIST", "arg": num}
    if x < 0.40:
        return {"verb": "UIDL"} if r.random() < 0.7 else {"verb": "UIDL", "arg": num}
    if x < 0.62:
        return {"verb": "RETR", "arg": num}
    if x < 0.70:
        return {"verb": "TOP", "arg": num, "arg2": r.choice((0, 1, 5, 0, 1, 5, "+1", "1_0", "-0", "9" * 5000, "\u00b9"))}
    if x < 0.88:
        return {"verb": "DELE", "arg": num}
    if x < 0.94:
        return {"verb": "RSET"}
    if x < 0.97:
        return {"verb": "NOOP"}
    return {"verb": r.choice(("CAPA", "XYZ", "USER x", ""))}


def generate(seed, tier, index, kf):
    r = random.Random(seed)
    sids = ["sa", "sb"][: r.randint(1, 2)]
    store, tok = mailstore.initial_store(r, ["inbox"], 1, 7, sparse=r.random() < 0.5, shapes=SHAPES)
    if r.random() < 0.04 and store["mailboxes"][0]["msgs"]:
        # a "poison" message: multiparts nested 300 deep (expensive to parse, hence rare)
        r.choice(store["mailboxes"][0]["msgs"])["shape"] = "deep-nest"
    ops = []
    # make sure the observer has seen INBOX (ledger / reference bodies) first
    ops.append({"actor": "driver", "op": "probe", "mboxes": ["inbox"]})
    popen = False
    nops = r.randint(8, 30 if tier == "quick" else 45)
    sel = {s: False for s in sids}
    for i in range(nops):
        x = r.random()
        if not popen and x < 0.35:
            ops.append({"s": "P", "op": "pop_open"})
            ops.append({"s": "P", "op": "pop", "verb": "UIDL"})
            popen = True
        elif popen and x < 0.5:
            ops.append(dict({"s": "P", "op": "pop"}, **gen_pop(r, 3)))
        elif popen and x < 0.58:
            if r.random() < 0.65:
                ops.append({"s": "P", "op": "pop_quit"})
            else:
                ops.append({"s": "P", "op": "pop_drop", "reset": r.random() < 0.5})
            popen = False
        else:
            s = r.choice(sids)
            y = r.random()
            if not sel[s]:
                ops.append({"s": s, "op": "select", "mbox": "inbox", "examine": False})
                sel[s] = True
            elif y < 0.2:
                tok += 1
                ops.append({"s": s, "op": "append", "mbox": "inbox", "tok": tok, "flags": [], "date": 1_650_000_000 + tok * 1013, "shape": r.choice(SHAPES)})
            elif y < 0.45:
                ops.append({"s": s, "op": "store", "uid": False, "set": {"raw": r.choice(("*", "1", "1:2", "*"))}, "how": "+", "flags": ["\\Deleted"], "silent": True})
                ops.append({"s": s, "op": "expunge"})
            elif y < 0.65:
                tok += 1
                ops.append({"actor": "agent", "op": "deliver", "mbox": "inbox", "count": 1, "toks": [tok], "unseen": True, "shape": r.choice(SHAPES)})
            elif y < 0.8:
                ops.append({"actor": "driver", "op": "wait", "dt": r.choice((1.0, 6.0, 15.0, 25.0))})
            elif y < 0.87:
                ops.append({"s": s, "op": "noop"})
            elif y < 0.9 and sum(1 for o in ops if o.get("op") == "rename") < 2:
                # RENAME INBOX moves every message away and leaves the INBOX empty - under an open POP3 session, too
                ops.append({"s": s, "op": "rename", "name": "inbox", "to": f"old{len(ops)}"})
                sel[s] = False
                ops.append({"s": s, "op": "select", "mbox": "inbox", "examine": False})
                sel[s] = True
            else:
                ops.append({"s": s, "op": "fetch", "uid": True, "set": {"all": True}, "items": "(UID BODY.PEEK[])"})
    if popen:
        ops.append({"s": "P", "op": "pop_quit"} if r.random() < 0.6 else {"s": "P", "op": "pop_drop"})
    prog = {
        "format": 1, "seed": seed, "world": "A", "mode": "sequential", "probe_p": r.choice((1.0, 1.0, 0.35, 0.1)), "latency": mailstore.swarm_latency(r, 0.3), "knobs": {}, "buggify": {},
        "store": store, "sessions": [{"id": s, "proto": "imap"} for s in sids] + [{"id": "P", "proto": "pop3"}], "ops": ops, "props": [PROP],
    }
    if r.random() < 0.6:
        prog["knobs"]["pack_limit"] = r.randint(2, 6)
        prog["knobs"]["pack_ratio"] = r.choice((0.6, 0.8, 0.95))
    if r.random() < 0.3:
        prog["buggify"]["gc_every"] = r.choice((50, 500))
    return prog


# ---------------------------------------------------------------------------
# family "front": the same snapshot/size/termination clauses seen by a client of the real POP3 front-end
# (asimap.pop3_server relaying to the real per-user server, World B)
FRONT_SHAPES = ["plain", "dot-lines", "no-final-newline", "crlf", "long-line", "huge-line", "multipart", "mp-no-boundary"]


def generate_front(seed, tier):
    r = random.Random(seed)
    n = r.randint(1, 4)
    msgs = [{"tok": i + 1, "shape": r.choice(FRONT_SHAPES)} for i in range(n)]
    if r.random() < 0.5:
        msgs[r.randrange(n)]["shape"] = "huge-line"
    steps = []
    for _ in range(r.randint(3, 10)):
        x = r.random()
        k = r.randint(1, n)
        if x < 0.45:
            steps.append({"send": f"RETR {k}", "expect": [["retr", k]]})
        elif x < 0.55:
            steps.append({"send": f"TOP {k} 1000000", "expect": [["retr", k]]})
        elif x < 0.65:
            steps.append({"send": "STAT", "expect": [["line"]]})
        elif x < 0.75:
            steps.append({"send": "LIST", "expect": [["multi"]]})
        elif x < 0.85:
            steps.append({"send": "UIDL", "expect": [["multi"]]})
        else:
            # several lines in one write, empty ones among them: every line is answered, in order, and no answer
            # stands inside another one
            e = r.randint(1, 3)
            steps.append({"send": f"RETR {k}\r\n" + "\r\n" * e + "NOOP", "expect": [["retr", k]] + [["line"]] * e + [["line"]]})
    return {"format": 1, "seed": seed, "world": "B", "family": "front", "msgs": msgs, "steps": steps, "seg": r.choice(("whole", "whole", "bytes", "random")),
            "latency": {"exec": r.choice(("zero", "small")), "db": "zero", "net": r.choice(("zero", "small", "bimodal"))}, "ops": [], "props": [PROP]}


def execute_front(program, opts):
    import asyncio
    import os

    from harness.driver import KnownFindings
    from harness.runctx import RunCtx
    from sim.loop import SimQuiescent, StepLimit
    from sim.worldb import FrontEnd, RawPop3Session

    ctx = RunCtx(program, opts)
    world = ctx.world
    env = ctx.env
    loop = env.loop
    world.known = KnownFindings()
    V = world.violate
    C = world.count
    fe = FrontEnd(world, ctx.jail, {"alice": {"password": "alicepw"}})
    want = {}

    def store():
        inbox = os.path.join(fe.maildir("alice"), "inbox")
        os.makedirs(inbox, exist_ok=True)
        for i, m in enumerate(program["msgs"], 1):
            data = corpus.build(m["shape"], m["tok"])
            with open(os.path.join(inbox, str(i)), "wb") as f:
                f.write(data)
            want[i] = m["tok"]
        with open(os.path.join(inbox, ".mh_sequences"), "w") as f:
            f.write("")

    async def multiline(p, what):
        """-> list of destuffed lines (without CRLF) or None when the reply was cut short"""
        out = []
        while True:
            ln = await p.line(timeout=120.0)
            if ln is None:
                return None
            if not ln.endswith(b"\r\n"):
                V(PROP, "pop3_framing", what=what, line=ln[:60])
                return None
            if ln == b".\r\n":
                return out
            if ln.startswith(b"."):
                ln = ln[1:]
            out.append(ln[:-2])

    async def main():
        await fe.start()
        store()
        p = RawPop3Session(world, "P", "10.2.0.1")
        world.net.connect(fe.pop_port, p, addr="10.2.0.1", seg_c2s=program.get("seg", "whole"))
        await p.line()
        await p.cmd("USER alice")
        ln = await p.cmd("PASS alicepw", timeout=200.0)
        if ln is None or not ln.startswith(b"+OK"):
            V(PROP, "pop3_no_reply", cmd="PASS", reply=ln)
            return
        ctx.nontrivial = True
        for st in program["steps"]:
            if p.lost:
                break
            world.note("C>P", st["send"][:80])
            p.transport.write(st["send"].encode("latin-1") + b"\r\n")
            for exp in st["expect"]:
                C("c20_front_reply")
                ln = await p.line(timeout=200.0)
                if ln is None:
                    V(PROP, "pop3_connection_dropped" if p.lost else "pop3_no_reply", cmd=st["send"][:40], waiting_for=exp[0], through="front-end")
                    return
                if not (ln.startswith(b"+OK") or ln.startswith(b"-ERR")) or not ln.endswith(b"\r\n"):
                    V(PROP, "pop3_framing", cmd=st["send"][:40], status=ln[:60], through="front-end")
                    return
                if exp[0] == "line" or ln.startswith(b"-ERR"):
                    continue
                body = await multiline(p, st["send"][:40])
                if body is None:
                    V(PROP, "pop3_reply_truncated", cmd=st["send"][:40], lost=p.lost, through="front-end")
                    return
                if exp[0] == "retr":
                    C("c20_front_retr")
                    data = b"\r\n".join(body) + b"\r\n"
                    ref = corpus.build(program["msgs"][exp[1] - 1]["shape"], want[exp[1]])
                    refn = b"\r\n".join(ref.replace(b"\r\n", b"\n").split(b"\n"))
                    if not refn.endswith(b"\r\n"):
                        refn += b"\r\n"
                    announced = None
                    w = ln.split()
                    if len(w) >= 2 and w[1].isdigit():
                        announced = int(w[1])
                    if corpus.tok_of(data) != want[exp[1]]:
                        V(PROP, "pop3_retr_wrong_message", cmd=st["send"][:40], want=want[exp[1]], got=corpus.tok_of(data), through="front-end")
                    elif st["send"].startswith("RETR") and announced is not None and announced != len(data):
                        V(PROP, "pop3_size_mismatch", cmd=st["send"][:40], announced=announced, delivered=len(data), through="front-end")
                    elif b"-ERR" in data or b"+OK" in data:
                        V(PROP, "pop3_reply_interleaved", cmd=st["send"][:40], through="front-end")
        p.close()

    extra = {}
    try:
        loop.run_until_complete(loop.create_task(main(), name="c20-front"))
    except SimQuiescent:
        extra["harness_error"] = "quiescent"
    except StepLimit:
        extra["harness_error"] = "step cap"
    res = ctx.result(extra)
    ctx.cleanup()
    return res


_generate_a = generate


def generate(seed, tier, index, kf):
    if index % 6 == 5:
        return generate_front(seed, tier)
    return _generate_a(seed, tier, index, kf)


def execute(program, opts):
    if program.get("family") == "front":
        return execute_front(program, opts)
    return worlda.execute(program, opts)


def simplifications(program):
    if program.get("family") == "front":
        out = []
        for i in range(len(program["steps"])):
            out.append(dict(program, steps=program["steps"][:i] + program["steps"][i + 1:]))
        return out
    return worlda.simplifications(program)
