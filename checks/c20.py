"""C20 - a POP3 session is a stable snapshot and deletes only on QUIT."""

import random

from gen import corpus, mailstore
from harness import worlda

PROP = "C20"
CONFIG = worlda.base_config(
    rule="seeded programs with one POP3 session (STAT, LIST, LIST n, UIDL, UIDL n, RETR, TOP n k, DELE, repeated DELE, RSET, NOOP, invalid numbers, QUIT or an "
    "abrupt disconnect) interleaved with 1-2 IMAP sessions that APPEND to and EXPUNGE from INBOX (often the last message, followed by a delivery that "
    "re-uses its MH number), RENAME the INBOX away and, with lowered pack knobs, make the folder get renumbered; message bodies with dot-lines, missing final newline, CRLF. "
    "Oracle: numbers/UIDL/sizes never change during the session, UIDL = IMAP UID, RETR n is -ERR or exactly the snapshot message (token and bytes equal "
    "IMAP BODY[]), announced = delivered octets, dot-stuffed termination, QUIT removes exactly the marked messages, RSET/drop removes nothing. "
    "non-trivial = a POP3 session ran; distinct = op signatures",
    level_text="snapshot-isolation and delete-on-QUIT accounting for the real POP3 handler of the per-user server against the reference model, with IMAP "
    "mutations, deliveries and packing interleaved under seeded schedules; exploration.",
    expected_probes=["pop3_quit_removed", "deliveries"],
)
SHAPES = ["plain", "dot-lines", "no-final-newline", "crlf", "empty-body", "multipart", "long-line", "folded"]


def gen_pop(r, n):
    x = r.random()
    num = r.choice([1, 1, 2, 3, "last", "last", "beyond", 0, "abc", -1, "+1", "+2", "1_0", "0_1", "1e0", "huge", "1"])
    if x < 0.12:
        return {"verb": "STAT"}
    if x < 0.24:
        return {"verb": "LIST"} if r.random() < 0.6 else {"verb": "LIST", "arg": num}
    if x < 0.40:
        return {"verb": "UIDL"} if r.random() < 0.7 else {"verb": "UIDL", "arg": num}
    if x < 0.62:
        return {"verb": "RETR", "arg": num}
    if x < 0.70:
        return {"verb": "TOP", "arg": num, "arg2": r.choice((0, 1, 5, 0, 1, 5, "+1", "1_0", "-0", "9" * 5000, "\u00b9"))}
    if x < 0.88:
        return {"verb": "DELE", "arg": num}
    if x < 0.94:
        return {"verb": "RSET"}
    if x < 0.97:
        return {"verb": "NOOP"}
    return {"verb": r.choice(("CAPA", "XYZ", "USER x", ""))}


def generate(seed, tier, index, kf):
    r = random.Random(seed)
    sids = ["sa", "sb"][: r.randint(1, 2)]
    store, tok = mailstore.initial_store(r, ["inbox"], 1, 7, sparse=r.random() < 0.5, shapes=SHAPES)
    ops = []
    # make sure the observer has seen INBOX (ledger / reference bodies) first
    ops.append({"actor": "driver", "op": "probe", "mboxes": ["inbox"]})
    popen = False
    nops = r.randint(8, 30 if tier == "quick" else 45)
    sel = {s: False for s in sids}
    for i in range(nops):
        x = r.random()
        if not popen and x < 0.35:
            ops.append({"s": "P", "op": "pop_open"})
            ops.append({"s": "P", "op": "pop", "verb": "UIDL"})
            popen = True
        elif popen and x < 0.5:
            ops.append(dict({"s": "P", "op": "pop"}, **gen_pop(r, 3)))
        elif popen and x < 0.58:
            if r.random() < 0.65:
                ops.append({"s": "P", "op": "pop_quit"})
            else:
                ops.append({"s": "P", "op": "pop_drop", "reset": r.random() < 0.5})
            popen = False
        else:
            s = r.choice(sids)
            y = r.random()
            if not sel[s]:
                ops.append({"s": s, "op": "select", "mbox": "inbox", "examine": False})
                sel[s] = True
            elif y < 0.2:
                tok += 1
                ops.append({"s": s, "op": "append", "mbox": "inbox", "tok": tok, "flags": [], "date": 1_650_000_000 + tok * 1013, "shape": r.choice(SHAPES)})
            elif y < 0.45:
                ops.append({"s": s, "op": "store", "uid": False, "set": {"raw": r.choice(("*", "1", "1:2", "*"))}, "how": "+", "flags": ["\\Deleted"], "silent": True})
                ops.append({"s": s, "op": "expunge"})
            elif y < 0.65:
                tok += 1
                ops.append({"actor": "agent", "op": "deliver", "mbox": "inbox", "count": 1, "toks": [tok], "unseen": True, "shape": r.choice(SHAPES)})
            elif y < 0.8:
                ops.append({"actor": "driver", "op": "wait", "dt": r.choice((1.0, 6.0, 15.0, 25.0))})
            elif y < 0.87:
                ops.append({"s": s, "op": "noop"})
            elif y < 0.9 and sum(1 for o in ops if o.get("op") == "rename") < 2:
                # RENAME INBOX moves every message away and leaves the INBOX empty - under an open POP3 session, too
                ops.append({"s": s, "op": "rename", "name": "inbox", "to": f"old{len(ops)}"})
                sel[s] = False
                ops.append({"s": s, "op": "select", "mbox": "inbox", "examine": False})
                sel[s] = True
            else:
                ops.append({"s": s, "op": "fetch", "uid": True, "set": {"all": True}, "items": "(UID BODY.PEEK[])"})
    if popen:
        ops.append({"s": "P", "op": "pop_quit"} if r.random() < 0.6 else {"s": "P", "op": "pop_drop"})
    prog = {
        "format": 1, "seed": seed, "world": "A", "mode": "sequential", "probe_p": r.choice((1.0, 1.0, 0.35, 0.1)), "latency": mailstore.swarm_latency(r, 0.3), "knobs": {}, "buggify": {},
        "store": store, "sessions": [{"id": s, "proto": "imap"} for s in sids] + [{"id": "P", "proto": "pop3"}], "ops": ops, "props": [PROP],
    }
    if r.random() < 0.6:
        prog["knobs"]["pack_limit"] = r.randint(2, 6)
        prog["knobs"]["pack_ratio"] = r.choice((0.6, 0.8, 0.95))
    if r.random() < 0.3:
        prog["buggify"]["gc_every"] = r.choice((50, 500))
    return prog


execute = worlda.execute
simplifications = worlda.simplifications
