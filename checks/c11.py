"""C11 - a crash at any instant loses nothing acknowledged and never rebinds a UID.

Fault enumeration: one deterministic execution of a history yields the on-disk
state a process kill would leave at *every* storage event (every audited
file-system mutation inside the mail directory and every write/commit job of
the simulated sqlite worker, before and after).  Each such state is restored
into a fresh directory, the real server is started on it and probed.
"""

import asyncio
import copy
import hashlib
import os
import random
import shutil
import sqlite3

from gen import corpus, mailstore
from harness import worlda
from harness.driver import KnownFindings
from harness.interp import Interp, MBox, MMsg, norm_flags, quote, code_of, parse_internaldate
from harness.runctx import RunCtx
from model.resp import Lit, fetch_items
from sim.loop import SimQuiescent, StepLimit
from sim.net import Net
from sim.seams import FS, SimEnv
from sim.world import ImapSession, UserNode, World

PROP = "C11"
CONFIG = worlda.base_config(
    rule="for each history (fixed representative ones: first start-up on an existing MH tree, start-up with schema migration from an old asimap.db, APPEND, "
    "STORE, EXPUNGE of middle/last, COPY, MOVE, pack, CREATE/DELETE/RENAME incl. subtree, delivery during a command; plus seeded random histories of 3-8 ops) "
    "ONE deterministic execution records the directory state at every storage event = every audited file-system mutation under the mail directory "
    "(create/truncate also as 'opened but nothing written yet') and every write statement / commit of the simulated sqlite worker, before and after. "
    "EVERY recorded state is restored, the real server is started on it and probed: start-up succeeds, every mailbox selects, acknowledged "
    "APPEND/COPY/MOVE messages present, acknowledged expunges absent, acknowledged flags kept (the op in flight may show old or new), no revealed "
    "(UIDVALIDITY, UID) bound to another message, UIDNEXT above every revealed UID. For every third history each state is restarted a second time after an MH "
    "agent has delivered a message (highest number + 1) into every folder while the server was dead. evaluations = crash states checked; non-trivial = state differs from "
    "the previous one; distinct = distinct directory-state hashes",
    level_text="fault enumeration over crash points: exhaustive over the storage events of each explored history (all events, not a sample), sampled over "
    "histories. Crash = process death (all completed system calls survive, nothing in memory does).",
    budget=(90, 1200),
    level="fault_enumeration",
)
CONFIG["level"] = "fault_enumeration"
CONFIG["assumptions"] = CONFIG["assumptions"] + [
    "crash model is process death (SIGKILL/SIGTERM without handler): power loss with un-synced pages is not modelled",
    "SQLite's atomic commit is trusted: a statement/commit job is observed before and after, not in the middle",
]
CONFIG["wall"] = 120
CONFIG["count_mode"] = "states"
CONFIG["exhaustive_note"] = "per history: every distinct directory state at a storage event is checked (the 8 slices of a history partition its states); histories are sampled"
SLICES = 8


# ---------------------------------------------------------------------------
def model_state(model):
    out = {}
    for name, b in model.boxes.items():
        out[name] = {
            "noselect": b.noselect, "uvv": b.uvv, "uncertain": b.uncertain,
            "msgs": [(m.uid, m.tok, sorted(m.flags), getattr(m, "acked", False)) for m in b.msgs],
            "ledger": dict(b.ledger), "max_uid": b.max_uid,
        }
    return out


class CrashInterp(Interp):
    """Runs the history once, snapshotting the mail directory at storage events."""

    def __init__(self, ctx):
        super().__init__(ctx)
        self.compare = True
        self.probe_after_ops = False
        self.states = {}
        self.snaps = []
        self.snapdir = os.path.join(ctx.root, "snaps")
        os.makedirs(self.snapdir, exist_ok=True)
        self.slice = ctx.program.get("crash_slice", (0, 1))
        self.event_no = 0
        self.last_hash = None
        self.cur_op = -2  # -2: server start-up, -1: initial observation, >=0: ops
        self.counts = {"events": 0, "states": 0, "dups": 0}

    async def after_mutation(self, boxes, why):
        return  # no observer probes during the recorded history (model follows acknowledgements)

    async def probe_all(self, **kw):
        # only the initial observation (reveals every UID: the ledger the crash checks use)
        if kw.get("initial"):
            self.cur_op = -1
            await Interp.probe_all(self, **kw)

    async def compare_box(self, box, why="", initial=False):
        if initial:
            await Interp.compare_box(self, box, why=why, initial=initial)

    def build_store(self):
        super().build_store()
        if self.prog.get("old_db"):
            self.make_old_db(self.prog["old_db"])
        self.states[-1] = model_state(self.model)
        self.env.storage_hook = self.on_storage_event

    def make_old_db(self, upto):
        """asimap.db as an older release left it: only the first migrations applied."""
        import asimap.db as adb

        path = os.path.join(self.maildir, "asimap.db")
        conn = sqlite3.connect(path)

        class A:
            async def execute(self_, sql, *a):
                conn.execute(sql, *a)

        for idx, mig in enumerate(adb.MIGRATIONS[:upto]):
            co = mig(A())
            try:
                co.send(None)
            except StopIteration:
                pass
            conn.execute("insert into versions (version) values (?)", (str(idx),))
        conn.commit()
        conn.close()

    def dir_hash(self):
        h = hashlib.sha1()
        for root, dirs, files in os.walk(self.maildir):
            dirs.sort()
            for f in sorted(files):
                p = os.path.join(root, f)
                try:
                    st = os.lstat(p)
                    h.update(f"{os.path.relpath(p, self.maildir)}|{st.st_size}|{st.st_mtime_ns}".encode())
                    if f.startswith("asimap.db"):
                        with open(p, "rb") as fh:
                            h.update(hashlib.sha1(fh.read()).digest())
                except OSError:
                    pass
            h.update(("D" + os.path.relpath(root, self.maildir)).encode())
        return h.hexdigest()[:16]

    def on_storage_event(self, kind, a, b):
        if FS.busy:
            return
        if kind.startswith("db"):
            name = kind.split(":", 1)[1]
            sql = (a or "").lstrip().lower()
            write = name in ("commit", "executescript", "rollback", "close") or (
                name == "execute" and not sql.startswith("select") and not sql.startswith("pragma")
            ) or name in ("_execute_insert",)
            if not write:
                return
        elif a is not None and not str(a).startswith(self.maildir):
            return
        self.counts["events"] += 1
        self.event_no += 1
        k, n = self.slice
        FS.busy = True
        try:
            from sim.seams import fs_flush

            FS.busy = False
            fs_flush()
            FS.busy = True
            hsh = self.dir_hash()
            variant_empty = kind in ("create", "trunc") and a is not None
            if hsh == self.last_hash and not variant_empty:
                self.counts["dups"] += 1
                return
            self.last_hash = hsh
            self.counts["states"] += 1
            if self.counts["states"] % n != k:
                return
            dst = os.path.join(self.snapdir, f"s{len(self.snaps):05d}")
            shutil.copytree(self.maildir, dst, symlinks=True)
            self.snaps.append({"dir": dst, "op": self.cur_op, "event": self.event_no, "kind": kind, "what": str(a or "")[-60:], "hash": hsh,
                               "during_pack": self.ctx.in_pack > 0})
            if variant_empty:
                rel = os.path.relpath(str(a), self.maildir)
                dst2 = os.path.join(self.snapdir, f"s{len(self.snaps):05d}")
                shutil.copytree(self.maildir, dst2, symlinks=True)
                p2 = os.path.join(dst2, rel)
                try:
                    os.makedirs(os.path.dirname(p2), exist_ok=True)
                    open(p2, "wb").close()
                    self.snaps.append({"dir": dst2, "op": self.cur_op, "event": self.event_no, "kind": kind + "+empty", "what": rel[-60:], "hash": hsh + "e",
                                       "during_pack": self.ctx.in_pack > 0})
                except OSError:
                    shutil.rmtree(dst2, ignore_errors=True)
        finally:
            FS.busy = False

    async def do_op(self, op):
        self.cur_op = self.op_index
        await super().do_op(op)
        # mark acknowledged creations
        self.states[self.op_index] = model_state(self.model)

    async def setup(self):
        ok = await super().setup()
        self.states[-1] = model_state(self.model)
        return ok


def mark_acked(interp):
    pass


# ---------------------------------------------------------------------------
async def probe_crash_state(world, node, expect_before, expect_after, violate, count, all_states=None, seen=None):
    all_states = all_states or {}
    """Restarted server on a crash state: compare with the acknowledged model."""
    obs = ImapSession(world, "obs", "10.0.0.9")
    world.net.connect(node.port, obs)
    r = await obs.command('LIST "" "*"')
    listed = {}
    for u in r.untagged:
        if u.kind == "LIST" and u.tokens and len(u.tokens) >= 3:
            nm = u.tokens[2]
            nm = bytes(nm).decode("latin-1") if isinstance(nm, Lit) else str(nm)
            listed["inbox" if nm.upper() == "INBOX" else nm] = {str(a).lower() for a in u.tokens[0]}
    if not r.ok:
        violate("mailbox_unselectable", what="LIST failed", reply=r.brief())
    for name, attrs in sorted(listed.items()):
        if "\\noselect" in attrs:
            continue
        count("c11_select")
        e = await obs.command(f"EXAMINE {quote('INBOX' if name == 'inbox' else name)}")
        if not e.ok:
            violate("mailbox_unselectable", mailbox=name, reply=e.brief())
            continue
        c = code_of(e, "UIDVALIDITY")
        uvv = int(c[0]) if c else None
        c = code_of(e, "UIDNEXT")
        uidnext = int(c[0]) if c else None
        ex = [u.num for u in e.untagged if u.kind == "EXISTS"]
        got = []
        if ex and ex[-1]:
            f = await obs.command("UID FETCH 1:* (UID FLAGS BODY.PEEK[HEADER.FIELDS (X-Tok)])")
            if not f.ok:
                violate("mailbox_unselectable", mailbox=name, what="FETCH failed after restart", reply=f.brief())
            for u in f.untagged:
                if u.kind != "FETCH":
                    continue
                try:
                    it = fetch_items(u)
                except Exception:
                    continue
                body = b""
                for k, v in it.items():
                    if k.startswith("BODY["):
                        body = bytes(v) if isinstance(v, Lit) else str(v).encode("latin-1")
                if "UID" in it:
                    got.append((int(it["UID"]), corpus.tok_of(body), norm_flags(it.get("FLAGS", []))))
        await obs.command("UNSELECT")
        if seen is not None:
            seen[name] = (uvv, [(u_, t_) for u_, t_, _ in got])
        B = expect_before.get(name)
        A = expect_after.get(name)
        if B is None and A is None:
            continue
        if B is None or A is None:
            continue  # the op in flight creates / deletes / renames this mailbox
        states = [s for s in (B, A) if not s["uncertain"]]
        if len(states) < 2:
            continue
        # ledger: no revealed (uvv, uid) may name another message now
        for st in states[:1]:
            if st["uvv"] is not None and uvv == st["uvv"]:
                count("c11_ledger")
                for uid, tok, fl in got:
                    was = st["ledger"].get(uid) if isinstance(next(iter(st["ledger"]), 0), int) else st["ledger"].get(str(uid))
                    if was is not None and tok is not None and was != tok:
                        violate("uid_rebound_after_crash", mailbox=name, uid=uid, was=was, now=tok)
                if uidnext is not None and st["max_uid"] and uidnext <= st["max_uid"]:
                    violate("uidnext_low_after_crash", mailbox=name, uidnext=uidnext, max_revealed=st["max_uid"])
            elif st["uvv"] is not None and uvv is not None and uvv != st["uvv"] and (A is None or A["uvv"] in (None, st["uvv"])) and (B is None or B["uvv"] in (None, st["uvv"])):
                # UIDVALIDITY changed: allowed by the statement only if old pairs are never re-used,
                # which a larger value guarantees
                if uvv < st["uvv"]:
                    violate("uidvalidity_decreased_after_crash", mailbox=name, was=st["uvv"], now=uvv)
        same_uvv = all(s["uvv"] is None or s["uvv"] == uvv for s in states)
        # acknowledged messages present / acknowledged expunges absent / flags
        count("c11_contents")

        def key(m):
            return (m[0], m[1]) if m[0] is not None else (None, m[1])

        gtoks = [t for _, t, _ in got]
        req = None
        for st in states:
            toks = [m[1] for m in st["msgs"] if m[3]]  # acknowledged ones
            cnt = {t: toks.count(t) for t in toks}
            req = cnt if req is None else {t: min(req.get(t, 0), cnt.get(t, 0)) for t in set(req) | set(cnt)}
        for t, n in (req or {}).items():
            if n and gtoks.count(t) < n:
                violate("acked_message_lost", mailbox=name, tok=t, required=n, found=gtoks.count(t), listed=gtoks)
                break
        allowed = {}
        ever = [s[name] for s in all_states.values() if name in s]
        for st in states:
            for m in st["msgs"]:
                allowed[m[1]] = max(allowed.get(m[1], 0), [x[1] for x in st["msgs"]].count(m[1]))
        for t in sorted(set(gtoks), key=lambda t: (t is None, t or 0)):
            # present although every acknowledged state has it expunged/moved away
            # (a duplicate of a message that legitimately exists - e.g. a kill between
            # pack's link() and unlink() - is not among the clauses of the statement)
            if t is not None and allowed.get(t, 0) == 0 and gtoks.count(t) > 0 and any(t in [x[1] for x in st0["msgs"]] for st0 in ever):
                violate("acked_expunge_undone", mailbox=name, tok=t, found=gtoks.count(t), allowed=allowed.get(t, 0), listed=gtoks)
                break
        if same_uvv:
            for uid, tok, fl in got:
                opts = []
                for st in states:
                    for m in st["msgs"]:
                        if m[0] == uid and m[1] == tok:
                            opts.append(frozenset(m[2]))
                # (a message that the op in flight is only just creating has no
                # acknowledged flags yet)
                if len(opts) == len(states) and fl not in opts:
                    violate("acked_flags_lost", mailbox=name, uid=uid, tok=tok, got=sorted(fl), acknowledged=[sorted(o) for o in opts])
                    break
    # conservation across mailboxes: a message that is acknowledged in the state before the op in flight and that is in
    # the state after it as well - wherever: RENAME INBOX and MOVE take it to another mailbox - is somewhere
    if expect_before and expect_after and seen is not None:
        count("c11_conservation")
        found = set()
        for nm_, (uvv_, msgs_) in seen.items():
            found.update(t for _, t in msgs_ if t is not None)
        acked_before = {m[1] for st in expect_before.values() if not st["uncertain"] for m in st["msgs"] if m[3] and m[1] is not None}
        in_after = {m[1] for st in expect_after.values() for m in st["msgs"] if m[1] is not None}
        unsure = any(st["uncertain"] for st in list(expect_before.values()) + list(expect_after.values()))
        lost = sorted((acked_before & in_after) - found)
        if lost and not unsure:
            violate("acked_message_lost", tok=lost[0], anywhere=True, lost=lost[:6], mailboxes=sorted(seen))
    # every mailbox the acknowledged model has must still be there
    for name in sorted(set(expect_before) & set(expect_after)):
        if name not in listed and not expect_before[name]["noselect"] and not expect_after[name]["noselect"]:
            violate("mailbox_lost_after_crash", mailbox=name, listed=sorted(listed))
    obs.close()


def deliver_while_down(maildir, idx):
    """An MH agent delivers one message into every folder that has messages while the server is dead: Python's
    mailbox.MH.add() / rcvstore semantics - the new message gets the highest number in the folder plus one (which is the
    number of the last message if that one's file has just been removed)."""
    n = 0
    for root, dirs, files in os.walk(maildir):
        dirs.sort()
        keys = sorted(int(f) for f in files if f.isdigit())
        if not keys or not os.path.exists(os.path.join(root, ".mh_sequences")):
            continue
        tok = 9000 + (idx * 7 + n) % 900
        with open(os.path.join(root, str(keys[-1] + 1)), "wb") as f:
            f.write(corpus.build("plain", tok))
        n += 1
    return n


def check_snapshot(snap, states, program, opts, idx, down_delivery=False):
    """Restore one crash state into a fresh directory and restart on it."""
    from harness.driver import scratch_base

    root = os.path.join(scratch_base(), f"crash-{os.getpid():08d}")
    shutil.rmtree(root, ignore_errors=True)
    os.makedirs(root)
    env = SimEnv(program.get("seed", 0) ^ (idx * 7919), root, latency={"exec": "zero", "db": "zero", "net": "zero"}, step_cap=120_000)
    env.install()
    net = Net(env)
    net.install()
    world = World(env, net)
    maildir = os.path.join(root, "jail", "alice", "Mail")
    os.makedirs(os.path.dirname(maildir), exist_ok=True)
    FS.busy = True
    shutil.copytree(snap["dir"], maildir, symlinks=True)
    if down_delivery:
        deliver_while_down(maildir, idx)
    FS.busy = False
    out = []

    def violate(rule, **detail):
        if down_delivery:
            detail["delivery_while_down"] = True
        detail.update(crash_event=snap["event"], crash_kind=snap["kind"], crash_at=snap["what"], during_op=snap["op"], during_pack=bool(snap.get("during_pack")))
        out.append({"property": PROP, "rule": rule, "detail": detail})

    counts = {}

    def count(k):
        counts[k] = counts.get(k, 0) + 1

    op = snap["op"]
    if op == -2:
        before = after = {}  # nothing has been revealed or acknowledged yet
    elif op == -1:
        before = after = states.get(-1)
    else:
        before = states.get(op - 1)
        after = states.get(op, before)

    async def main():
        node = UserNode(world, maildir)
        ok = await node.start(timeout=900.0)
        count("c11_restart")
        if not ok:
            violate("restart_failed", error=(node.start_error or "")[:300])
            return
        first = {}
        await probe_crash_state(world, node, before or {}, after or {}, violate, count, all_states=states, seen=first)
        node.run_task.cancel()
        await asyncio.wait({node.run_task}, timeout=20)
        await node._exit()
        if out:
            return
        # what the restarted server has shown (UIDs of its own choosing included) is revealed now: an orderly restart
        # later on must show the same (UIDVALIDITY, UID) -> message pairs
        node2 = UserNode(world, maildir)
        ok2 = await node2.start(timeout=900.0)
        count("c11_second_restart")
        if not ok2:
            violate("restart_failed", error=(node2.start_error or "")[:300], second_restart=True)
            return
        second = {}
        await probe_crash_state(world, node2, {}, {}, violate, count, all_states={}, seen=second)
        for name, (uvv1, msgs1) in sorted(first.items()):
            if name not in second:
                continue
            uvv2, msgs2 = second[name]
            if uvv1 is None or uvv1 != uvv2:
                continue
            m1 = {u: t for u, t in msgs1 if t is not None}
            for u, t in msgs2:
                if t is not None and u in m1 and m1[u] != t:
                    violate("uid_rebound_after_crash", mailbox=name, uid=u, was=m1[u], now=t, second_restart=True)
                    break
        node2.run_task.cancel()
        await asyncio.wait({node2.run_task}, timeout=20)
        await node2._exit()

    loop = env.loop
    try:
        loop.run_until_complete(loop.create_task(main(), name="crash-check"))
    except (SimQuiescent, StepLimit) as e:
        violate("restart_failed", error=f"restart did not finish: {e!r}")
    finally:
        FS.root = None
        try:
            loop.close()
        except Exception:
            pass
        shutil.rmtree(root, ignore_errors=True)
    return out, counts, env.loop.steps


# ---------------------------------------------------------------------------
def execute(program, opts):
    ctx = RunCtx(program, opts)
    ctx.world.known = KnownFindings()
    it = CrashInterp(ctx)
    loop = ctx.env.loop
    extra = {}
    try:
        loop.run_until_complete(loop.create_task(it.run(), name="interp-main"))
    except SimQuiescent:
        ctx.world.violate("C10", "deadlock", why="history run quiescent")
    except StepLimit:
        extra["harness_error"] = "step cap in history run"
    FS.root = None
    hist_violations = list(ctx.world.violations)
    states = it.states
    # acknowledged = created by an acknowledged APPEND/COPY/MOVE: everything the model holds
    # except agent deliveries (uid None and never revealed)
    for st in states.values():
        for b in st.values():
            b["msgs"] = [(m[0], m[1], m[2], m[0] is not None) for m in b["msgs"]]
    res_v = []
    rules = dict(ctx.world.rules)
    nstates = 0
    steps = ctx.env.loop.steps
    hashes = set()
    for idx, snap in enumerate(it.snaps):
        v, counts, st = check_snapshot(snap, states, program, opts, idx)
        steps += st
        nstates += 1
        hashes.add(snap["hash"])
        for k, n in counts.items():
            rules[k] = rules.get(k, 0) + n
        res_v.extend(v)
        if program.get("down_delivery") and not v:
            # the same crash state once more, with mail delivered before the server comes back
            v2, counts2, st2 = check_snapshot(snap, states, program, opts, idx, down_delivery=True)
            steps += st2
            rules["c11_restart_after_delivery_while_down"] = rules.get("c11_restart_after_delivery_while_down", 0) + 1
            ctx.env.fired("delivery_while_down")
            res_v.extend(v2)
            v = v2
        if v and opts.get("minimising"):
            break
    res = {
        "violations": [x for x in hist_violations if x["property"] == PROP] + res_v,
        "steps": steps,
        "sim_seconds": round(ctx.env.vnow(), 3),
        "faults": {"crash": nstates, **ctx.env.faults_fired},
        "rules": rules,
        "stats": dict(ctx.env.stats, storage_events=it.counts["events"], crash_states_total=it.counts["states"], duplicate_states_skipped=it.counts["dups"]),
        "probes": dict(ctx.probes, crash_states_checked=nstates),
        "digest": ctx.env.log.digest(),
        "signature": hashlib.sha256(("|".join(sorted(hashes)) + str(program.get("crash_slice"))).encode()).hexdigest()[:16],
        "nontrivial": nstates > 0,
        "state_hashes": sorted(hashes)[:200],
        "known_hits": it.known_hits,
        "evals": nstates,
        "sample": {
            "history": program.get("name"), "ops": program.get("ops", [])[:10], "slice": program.get("crash_slice"),
            "storage_events": it.counts["events"], "distinct_states": it.counts["states"], "checked_here": nstates,
            "first_states": [{k: s[k] for k in ("event", "kind", "what", "op")} for s in it.snaps[:6]],
        },
    }
    if opts.get("transcript"):
        res["transcript"] = ctx.world.transcript
    res.update(extra)
    ctx.cleanup()
    return res


# ---------------------------------------------------------------------------
def fixed_histories():
    S = lambda **k: dict({"s": "sa"}, **k)  # noqa: E731
    sel = S(op="select", mbox="inbox", examine=False)
    H = []
    H.append(("first-startup", {}, []))
    H.append(("startup-migration-from-v0", {"old_db": 1}, []))
    H.append(("startup-migration-from-v3", {"old_db": 4}, []))
    H.append(("append", {}, [S(op="append", mbox="inbox", tok=101, flags=["\\Flagged"], date=1650000001), S(op="append", mbox="work", tok=102, flags=[], date=1650000002)]))
    H.append(("store", {}, [sel, S(op="store", uid=True, set={"pos": [1, 2]}, how="+", flags=["\\Seen", "kw1"], silent=False), S(op="store", uid=False, set={"pos": [2]}, how="-", flags=["\\Seen"], silent=True)]))
    H.append(("expunge-middle-last", {}, [sel, S(op="store", uid=False, set={"pos": [2]}, how="+", flags=["\\Deleted"], silent=True), S(op="expunge"),
              S(op="store", uid=False, set={"raw": "*"}, how="+", flags=["\\Deleted"], silent=True), S(op="expunge"), S(op="append", mbox="inbox", tok=103, flags=[], date=1650000003)]))
    H.append(("copy", {}, [sel, S(op="copy", uid=False, set={"pos": [1, 2]}, dst="work"), S(op="copy", uid=True, set={"pos": [1]}, dst="inbox")]))
    H.append(("rename-inbox", {}, [S(op="append", mbox="inbox", tok=105, flags=["\\Answered"], date=1650000005), S(op="append", mbox="inbox", tok=106, flags=[], date=1650000006), sel,
              S(op="store", uid=False, set={"pos": [1]}, how="+", flags=["\\Flagged", "\\Seen"], silent=True), S(op="rename", name="inbox", to="old"),
              S(op="append", mbox="inbox", tok=107, flags=[], date=1650000007)]))
    H.append(("move", {}, [sel, S(op="move", uid=False, set={"pos": [1]}, dst="work"), S(op="move", uid=True, set={"all": True}, dst="work")]))
    H.append(("pack", {"knobs": {"pack_limit": 3, "pack_ratio": 0.95}, "sparse": True}, [sel, S(op="store", uid=False, set={"pos": [1]}, how="+", flags=["\\Deleted"], silent=True), S(op="expunge"),
              {"actor": "driver", "op": "wait", "dt": 12.0}, S(op="noop"), {"actor": "driver", "op": "wait", "dt": 12.0}, S(op="append", mbox="inbox", tok=104, flags=[], date=1650000004)]))
    H.append(("create-delete-rename", {}, [S(op="create", name="new/sub"), S(op="append", mbox="new/sub", tok=105, flags=[], date=1650000005), S(op="rename", name="new", to="moved"),
              S(op="subscribe", name="moved/sub"), S(op="delete", name="moved"), S(op="delete", name="moved/sub"), S(op="rename", name="inbox", to="old-inbox")]))
    H.append(("delivery-during-command", {}, [sel, {"actor": "agent", "op": "deliver", "mbox": "inbox", "count": 2, "unseen": True}, S(op="store", uid=False, set={"pos": [1]}, how="+", flags=["\\Answered"], silent=False),
              S(op="noop"), S(op="append", mbox="inbox", tok=106, flags=["\\Seen"], date=1650000006)]))
    H.append(("fetch-implicit-seen", {}, [sel, S(op="fetch", uid=False, set={"pos": [1, 2]}, items="(BODY[])"), S(op="fetch", uid=True, set={"pos": [1]}, items="(FLAGS)"), S(op="noop"),
              S(op="fetch", uid=False, set={"pos": [2]}, items="(RFC822.TEXT)")]))
    H.append(("flag-on-off-on", {}, [sel, S(op="store", uid=False, set={"pos": [2]}, how="+", flags=["\\Flagged"], silent=False), S(op="store", uid=False, set={"pos": [2]}, how="-", flags=["\\Flagged"], silent=False),
              S(op="store", uid=False, set={"pos": [2]}, how="+", flags=["\\Flagged"], silent=False), S(op="noop"),
              S(op="store", uid=True, set={"all": True}, how="+", flags=["\\Deleted"], silent=True), S(op="store", uid=True, set={"all": True}, how="-", flags=["\\Deleted"], silent=True),
              S(op="store", uid=True, set={"all": True}, how="+", flags=["\\Deleted"], silent=True), S(op="noop")]))
    return H


def generate(seed, tier, index, kf):
    r = random.Random(seed)
    H = fixed_histories()
    hist_no = index // SLICES
    k = index % SLICES
    base_seed = 1000 + hist_no
    if hist_no < len(H):
        name, extra, ops = H[hist_no]
        rr = random.Random(base_seed)
        store, tok = mailstore.initial_store(rr, ["inbox", "work"], 2, 4, sparse=bool(extra.get("sparse")))
        prog = {
            "format": 1, "seed": base_seed, "world": "A", "mode": "sequential", "latency": {"exec": "zero", "db": "zero", "net": "zero"},
            "knobs": extra.get("knobs", {}), "buggify": {}, "store": store, "sessions": [{"id": "sa", "proto": "imap"}], "ops": ops, "props": [PROP],
            "name": name,
        }
        if extra.get("old_db"):
            prog["old_db"] = extra["old_db"]
    else:
        # seeded random history (the same one for all its slices)
        hseed = derive(seed_base(seed, index), hist_no)
        rr = random.Random(hseed)
        prof = {
            "mailboxes": ["inbox", "work"], "sessions": 1, "init_hi": 4, "ops_lo": 3, "ops_hi": 8, "mode": "sequential", "pack_knob": True, "pack_p": 0.3,
            "weights": {"select": 2, "append": 3, "store": 3, "delete_flag": 3, "expunge": 3, "copy": 2, "move": 2, "noop": 1, "deliver": 1.5, "create": 1, "delete": 0.7,
                        "rename": 0.7, "subscribe": 0.5, "close": 0.5, "wait": 0.5},
            "name_alphabet": ["a", "b", "new"], "quiet_p": 1.0, "gc_p": 0.0, "final_flush_p": 0.0,
        }
        prog = mailstore.generate(hseed, prof)
        prog["props"] = [PROP]
        prog["name"] = f"random-{hseed}"
        prog["latency"] = {"exec": "zero", "db": "zero", "net": "zero"}
    # every third history: each crash state is also restarted after an MH delivery made while the server was dead
    prog["down_delivery"] = hist_no % 3 == 1 or prog.get("name") in ("expunge-middle-last", "move", "rename-inbox", "pack")
    prog["crash_slice"] = (k, SLICES)
    prog["seed"] = prog.get("seed", seed)
    return prog


_MASTER = {}


def seed_base(seed, index):
    return _MASTER.setdefault("s", seed)


def derive(a, b):
    return int.from_bytes(hashlib.sha256(f"{a}-{b}".encode()).digest()[:6], "big")


def simplifications(program):
    return []
