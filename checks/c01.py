"""C01 - message sequence numbers never desynchronise between server and session."""

from checks import _common
from harness import worlda

PROP = "C01"
CONFIG = worlda.base_config(
    rule="seeded histories of SELECT/EXAMINE, APPEND, STORE(+-\\Deleted mostly), EXPUNGE, UID EXPUNGE, COPY, MOVE, CLOSE, IDLE/DONE, NOOP, CHECK and "
    "external deliveries from 2-3 sessions on 1-2 shared mailboxes; half the programs run the sessions concurrently (stream monitors only), half "
    "sequentially (plus flush-equality against the reference model). non-trivial = concurrent programs, or sequential ones in which an EXPUNGE "
    "removed messages or a delivery happened. Every 12th program is the idle-race family (a session behind a slow link starts an IDLE while "
    "more than a socket buffer of notifications is pending for it and another session expunges messages one at a time). "
    "distinct = distinct (actor, op-kind) sequence signatures",
    level_text="every response a session receives is replayed into that session's view at delivery time: EXISTS may not shrink the view, EXPUNGE/FETCH "
    "numbers must lie inside it, no EXPUNGE during a non-UID FETCH/STORE/SEARCH or outside a command, a sequence number never re-binds to another "
    "UID, content returned for a sequence number is the message the view binds to it, and after NOOP/CHECK/IDLE the view equals the message "
    "list. Seeded search over histories and I/O interleavings; exploration is the level the unbounded quantifier admits.",
    expected_probes=["deliveries", "expunge_removed_messages"],
)

SEQ_W = {
    "select": 2, "append": 2, "store": 2, "delete_flag": 5, "fetch": 3, "search": 1, "expunge": 4, "copy": 1.5, "move": 2,
    "noop": 4, "learn": 1, "deliver": 3, "wait": 1.5, "close": 0.7, "idle": 1.5,
}


def profile(r, tier, index):
    conc = r.random() < 0.5
    prof = {
        "mailboxes": ["inbox", "work"][: r.randint(1, 2)], "sessions": r.randint(2, 3), "weights": SEQ_W, "init_hi": 8,
        "ops_lo": 10, "ops_hi": 40 if tier == "thorough" else 30, "mode": "concurrent" if conc else "sequential",
        "bad_set_p": 0.03, "examine_p": 0.1, "quiet_p": 0.15 if conc else 0.4, "stall_p": 0.2 if conc else 0.0,
        "fetch_items": ["(UID FLAGS)", "(UID BODY.PEEK[HEADER.FIELDS (X-Tok)])", "(BODY.PEEK[])", "(FLAGS)", "(UID)"],
    }
    if conc:
        prof["compare"] = False
    else:
        prof["probe_p"] = r.choice((1.0, 1.0, 0.35, 0.1))
    return prof


def post(prog, r, tier, prof):
    if prog["mode"] == "concurrent":
        # seeded think times so that commands of different sessions overlap
        for op in prog["ops"]:
            op["when"] = {"delay": r.choice((0.0, 0.0, 0.001, 0.01, 0.05, 0.3, 1.2))}
    return prog


_gen, execute, simplifications = _common.make(PROP, profile, CONFIG, post)


def generate(seed, tier, index, kf):
    """Every 12th program is the *idle-race* family: session sa sits behind a slow link with a small socket buffer; sb puts
    far more than that buffer of flag notifications on sa's pending list; sa starts an IDLE (the flush of the pending
    list waits in drain()) and sb expunges messages one by one during and after that flush. EXPUNGEs must reach sa in
    the order they were applied: at quiescence its replayed view equals the message list."""
    import random

    if index % 12 != 11:
        return _gen(seed, tier, index, kf)
    from gen import mailstore

    r = random.Random(seed)
    store, tok = mailstore.initial_store(r, ["inbox"], 24, 40, kw=None, shapes=["plain"])
    n = len(store["mailboxes"][0]["msgs"])
    kws = ["K%02d%s" % (k, "x" * 56) for k in range(r.randint(24, 40))]
    ops = [{"s": s_, "op": "select", "mbox": "inbox", "examine": False} for s_ in ("sa", "sb")]
    ops.append({"s": "sb", "op": "store", "uid": False, "set": {"all": True}, "how": "+", "flags": kws, "silent": True})
    kind = r.choice(("idle", "idle", "expunge", "move"))
    victims = r.sample(range(1, n + 1), min(n, r.randint(3, 6)))
    own = victims.pop()
    if kind == "idle":
        ops.append({"s": "sa", "op": "idle", "when": {"delay": 0.0}})
    else:
        # the slow session's own EXPUNGE / MOVE: it flushes what is pending for it first, and goes on receiving while it does
        if kind == "expunge":
            ops.append({"s": "sa", "op": "store", "uid": True, "set": {"uids": [own]}, "how": "+", "flags": ["\\Deleted"], "silent": True, "when": {"delay": 0.0}})
            ops.append({"s": "sa", "op": "expunge", "when": {"delay": 0.0}})
        else:
            ops.append({"s": "sa", "op": "move", "uid": True, "set": {"uids": [own]}, "dst": "inbox", "when": {"delay": 0.0}})
    t = 0.0
    for v in victims:
        t = r.choice((0.0, 0.05, 0.3, 0.8, 1.5))
        ops.append({"s": "sb", "op": "store", "uid": True, "set": {"uids": [v]}, "how": "+", "flags": ["\\Deleted"], "silent": True, "when": {"delay": t}})
        ops.append({"s": "sb", "op": "expunge", "when": {"delay": 0.0}})
    if kind == "idle":
        ops.append({"s": "sa", "op": "done", "when": {"delay": r.choice((0.5, 2.0, 4.0))}})
    ops.append({"s": "sa", "op": "noop", "when": {"delay": 0.1}})
    ops.append({"s": "sb", "op": "noop", "when": {"delay": 0.1}})
    for op in ops:
        op.setdefault("when", {"delay": 0.0})
    return {
        "format": 1, "seed": seed, "world": "A", "mode": "concurrent", "compare": False, "family": "idle-race",
        "latency": {"exec": "small", "db": "small", "net": r.choice(("bimodal", "slow", "wide"))}, "knobs": {"sock_buf": r.choice((128, 512, 2048))}, "buggify": {},
        "store": store, "sessions": [{"id": "sa", "proto": "imap"}, {"id": "sb", "proto": "imap"}], "ops": ops, "props": [PROP],
    }

