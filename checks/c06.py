"""C06 - every command is answered exactly once, promptly, whatever its arguments."""

import random

from gen import mailstore
from harness import worlda

PROP = "C06"
CONFIG = worlda.base_config(
    rule="seeded programs that put 1-3 sessions into every session state (not selected / selected / examine / idling / selected mailbox deleted or renamed by "
    "another session / after an orderly restart) and issue every advertised verb with boundary arguments: message sets 0, 1, N, N+1, *, N+1:*, *:1, "
    "huge numbers, empty mailbox; mailbox names existing, missing, \\Noselect placeholder (also after restart), being deleted; syntactically damaged "
    "commands. Sessions run sequentially or concurrently; db_readonly_transient, gc and timer_late are injected; a separate configuration adds "
    "client stall/reset (safety clauses only). Oracle: exactly one tagged OK/NO/BAD per tag, after its data, session usable unless told BYE, reply "
    "latency < 30 virtual s and never the watchdog's text. non-trivial = >=5 commands answered; distinct = op signatures",
    level_text="exactly-once / bounded-latency accounting on the real per-user server over seeded command and schedule space with a virtual clock "
    "(the 120 s watchdog costs microseconds); exploration, since the argument space is unbounded.",
)

VERBS_SET = [
    "FETCH {set} (FLAGS)", "FETCH {set} (UID BODY.PEEK[HEADER])", "FETCH {set} BODY[]", "FETCH {set} FAST", "STORE {set} +FLAGS (\\Seen)",
    "STORE {set} FLAGS.SILENT (kw1)", "STORE {set} -FLAGS (\\Deleted)", "COPY {set} {mbox}", "MOVE {set} {mbox}", "SEARCH {set}", "SEARCH ALL",
    "SEARCH UID {set}", "SEARCH NOT {set} SEEN", "UID FETCH {set} (FLAGS)", "UID STORE {set} +FLAGS (\\Flagged)", "UID COPY {set} {mbox}",
    "UID MOVE {set} {mbox}", "UID SEARCH {set}", "UID EXPUNGE {set}", "UID SEARCH UID {set}",
]
VERBS_PLAIN = [
    "NOOP", "CHECK", "EXPUNGE", "CLOSE", "UNSELECT", "CAPABILITY", "NAMESPACE", 'ID ("name" "x")', "ID NIL", "LOGIN alice secret",
    "AUTHENTICATE PLAIN", "STATUS {mbox} (MESSAGES UIDNEXT)", "STATUS {mbox} (UNSEEN RECENT UIDVALIDITY)", "SELECT {mbox}", "EXAMINE {mbox}",
    "CREATE {newbox}", "DELETE {mbox}", "RENAME {mbox} {newbox}", "SUBSCRIBE {mbox}", "UNSUBSCRIBE {mbox}", 'LIST "" *', 'LIST "" %',
    'LSUB "" *', 'LIST {mbox} *', 'LIST "" {mbox}', 'LIST (SUBSCRIBED) "" *', 'LIST "" * RETURN (STATUS (MESSAGES))', 'LIST "" ""',
    "STARTTLS", "XYZZY", "UID NOOP", "UID", "FETCH", "STORE 1", "COPY 1", "SEARCH", "SELECT", "APPEND {mbox}", "RENAME {mbox}", "STATUS {mbox}",
    "STATUS {mbox} ()", "STATUS {mbox} (BOGUS)", "LIST", 'LIST ""', "UID FETCH 1:* (FLAGS", "FETCH 1 (BODY[HEADER.FIELDS (", "STORE 1 +FLAGS \\Seen)",
    "FETCH 1 BODY[1.2.3.MIME]", "FETCH 1 BODY[TEXT]<0.0>", "FETCH 1 BODY[]<99999.5>", "FETCH 1 (BODY[HEADER.FIELDS.NOT (Subject)] RFC822.SIZE INTERNALDATE ENVELOPE BODYSTRUCTURE)",
    "SEARCH BEFORE 1-Jan-2030 LARGER 1 OR SEEN FLAGGED", "SEARCH HEADER Subject \"\"", "SEARCH KEYWORD", "SEARCH SENTSINCE 99-Foo-2020",
    # well-formed syntax, impossible values: calendar dates that do not exist, year 0, absurd nesting and sizes
    "SEARCH BEFORE 31-Feb-2020", "SEARCH SINCE 0-Jan-2020", "SEARCH ON 1-Jan-0000", "SEARCH SENTBEFORE 30-Feb-1999 ALL", "UID SEARCH SENTON 31-Apr-2021",
    'APPEND {mbox} "31-Feb-2020 10:00:00 +0000" {{3}}\r\nabc', 'APPEND {mbox} (\\Seen) "29-Feb-2023 25:61:61 +9999" {{3}}\r\nabc',
    "SEARCH " + "NOT " * 1500 + "ALL", "SEARCH " + "(" * 1200 + "ALL" + ")" * 1200, "SEARCH " + "OR " * 600 + "ALL " * 601,
    "SEARCH LARGER 99999999999999999999999999", "FETCH 1 BODY[]<0.99999999999999999999>", "FETCH 1 BODY[" + "1." * 400 + "1]", "STORE 1 +FLAGS (" + "\\Seen " * 400 + ")",
]
DAMAGED = ["", " ", "NOOP NOOP", "a b c d e f g", "(", ")", '"', "{5}", "FETCH 1 (FLAGS))", "FETCH (1) FLAGS", "A" * 3000, "FETCH " + "1," * 500 + "1 FLAGS",
           "STORE 1 +FLAGS (" + "k " * 300 + ")", "\x00", "FETCH 1 \xff\xfe", "SELECT \"unterminated", "LOGIN {3}\r\nabc {3}\r\nxyz"]


def gen_ops(r, names, sids, size_hint, allow_restart=True):
    ops = []
    state = {s: None for s in sids}
    placeholders = []
    nops = r.randint(10, 30)
    pool_sets = lambda n: [  # noqa: E731
        "0", "1", str(max(n, 1)), str(n + 1), "*", f"{n + 1}:*", "*:1", "1:*", "4294967295", "4294967296", "99999999999999999999", f"1:{n + 3}",
        f"{n}:{max(n - 1, 1)}", "1,1,1", "2:1", "1:0", "*:*", f"{n + 5}", "1,*", ",", "1:", ":1", "-1", "1.5", "$",
    ]
    for _ in range(nops):
        s = r.choice(sids)
        x = r.random()
        names_now = names + placeholders + ["nosuch", "no/such/deep", "INBOX", "inbox", "InBoX", ""]
        mbox = r.choice(names_now)
        q = '"%s"' % mbox
        n = size_hint
        if x < 0.12:
            m = r.choice(names)
            ops.append({"s": s, "op": "select", "mbox": m, "examine": r.random() < 0.3, "learn": r.random() < 0.5})
            state[s] = m
        elif x < 0.16:
            ops.append({"s": s, "op": "idle"})
            ops.append({"actor": "driver", "op": "wait", "dt": r.choice((0.1, 2.0, 6.0))})
            if r.random() < 0.3:
                ops.append({"s": s, "op": "raw_in_idle", "line": r.choice(("NOOP", "x IDLE", "idle", "DONE X", "FETCH 1 FLAGS", ""))})
            ops.append({"s": s, "op": "done"})
        elif x < 0.2:
            # make a \Noselect placeholder: parent with child, delete parent
            p = r.choice(("ph", "ph2"))
            ops.append({"s": s, "op": "raw", "line": f'CREATE "{p}/kid"'})
            ops.append({"s": s, "op": "raw", "line": f'DELETE "{p}"'})
            if p not in placeholders:
                placeholders.append(p)
        elif x < 0.23 and allow_restart:
            ops.append({"actor": "life", "op": "restart", "kind": r.choice(("cancel", "expire")), "compare": False})
            for k in state:
                state[k] = None
        elif x < 0.27:
            # another session deletes / renames the mailbox this one has selected
            victim = state[s]
            others = [o for o in sids if o != s]
            if victim and victim != "inbox" and others:
                o = r.choice(others)
                if r.random() < 0.5:
                    ops.append({"s": o, "op": "raw", "line": f'DELETE "{victim}"'})
                else:
                    ops.append({"s": o, "op": "raw", "line": f'RENAME "{victim}" "{victim}-r"'})
        elif x < 0.285 and state[s] and state[s] not in ("inbox",):
            # an MH user removes the folder this session has selected (`rmf`): the session's next commands are still
            # answered at once
            ops.append({"actor": "agent", "op": "rmf", "mbox": state[s]})
            ops.append({"s": s, "op": "raw", "line": r.choice(("NOOP", "FETCH 1:* FLAGS", "CHECK", "SEARCH ALL"))})
            if r.random() < 0.5:
                ops.append({"s": r.choice(sids), "op": "raw", "line": f'CREATE "{state[s]}"'})
                ops.append({"s": r.choice(sids), "op": "raw", "line": f'SELECT "{state[s]}"'})
            for k in state:
                state[k] = None if state[k] == state[s] else state[k]
        elif x < 0.32:
            ops.append({"actor": "agent", "op": "deliver", "mbox": r.choice(names), "count": 1, "unseen": True})
        elif x < 0.62:
            t = r.choice(VERBS_SET)
            ops.append({"s": s, "op": "raw", "line": t.format(set=r.choice(pool_sets(n)), mbox=q)})
        elif x < 0.92:
            t = r.choice(VERBS_PLAIN)
            ops.append({"s": s, "op": "raw", "line": t.format(mbox=q, newbox='"%s"' % r.choice(("n1", "n1/n2", "ph/kid2", "nosuchparent/x", mbox + "/sub", "inbox", "")))})
        else:
            ops.append({"s": s, "op": "raw", "line": r.choice(DAMAGED), "tag": None})
    return ops


def generate(seed, tier, index, kf):
    r = random.Random(seed)
    names = ["inbox", "work", "empty"]
    sids = [f"s{chr(ord('a') + i)}" for i in range(r.randint(1, 3))]
    store, tok = mailstore.initial_store(r, names[:2], 0, 6)
    store["mailboxes"].append({"name": "empty", "msgs": []})
    size = max(len(m["msgs"]) for m in store["mailboxes"])
    faulty = r.random() < 0.25
    mode = r.choice(("sequential", "concurrent"))
    prog = {
        "format": 1, "seed": seed, "world": "A", "mode": mode, "compare": False,
        "latency": mailstore.swarm_latency(r, 0.3), "knobs": {}, "buggify": {}, "store": store,
        "sessions": [{"id": s, "proto": "imap"} for s in sids], "ops": gen_ops(r, names, sids, size, allow_restart=(mode == "sequential")), "props": [PROP],
        "liveness": not faulty,
    }
    if r.random() < 0.4:
        prog["buggify"]["gc_every"] = r.choice((20, 100, 500))
    if r.random() < 0.3:
        prog["buggify"]["db_readonly_p"] = r.choice((0.02, 0.1))
    if r.random() < 0.3:
        prog["buggify"]["stall_p"] = 0.002
        prog["buggify"]["stall_max"] = r.choice((0.05, 1.0))
    if faulty:
        # fault configuration: client resets / drops; only safety clauses apply
        for i in sorted(r.sample(range(len(prog["ops"])), k=min(2, len(prog["ops"]))), reverse=True):
            s = r.choice(sids)
            prog["ops"].insert(i, {"s": s, "op": "drop", "reset": r.random() < 0.5})
            prog["ops"].insert(i + 1, {"s": s, "op": "reconnect"})
    if prog["mode"] == "concurrent":
        for op in prog["ops"]:
            op["when"] = {"delay": r.choice((0.0, 0.0, 0.002, 0.02, 0.2))}
    return prog


# ---------------------------------------------------------------------------
# family "preauth" (World B): what a client sends before it has logged in is answered by the front-end itself - every
# complete command exactly once, with the command's tag
PRE_LINES = ["CAPABILITY", "NOOP", "LOGIN onlyuser", "LOGIN", "FETCH", "BOGUS", "SELECT inbox", "LOGIN alice wrongpw", "LOGIN alice \"wr\\\"ong\"", "ID NIL",
             "FETCH 1 (", "UID", "STORE 1 +FLAGS", "AUTHENTICATE PLAIN", "LIST \"\" *", "STARTTLS", "X", "LOGIN {3+}\r\nabc", "NAMESPACE extra", "LOGOUT extra"]


def generate_preauth(seed, tier):
    r = random.Random(seed)
    lines = [r.choice(PRE_LINES) for _ in range(r.randint(3, 12))]
    return {"format": 1, "seed": seed, "world": "B", "family": "preauth", "lines": lines, "seg": r.choice(("whole", "whole", "bytes")),
            "latency": {"exec": "zero", "db": "zero", "net": r.choice(("zero", "small"))}, "ops": [], "props": [PROP]}


def execute_preauth(program, opts):
    import asyncio

    from harness.driver import KnownFindings
    from harness.runctx import RunCtx
    from sim.loop import SimQuiescent, StepLimit
    from sim.worldb import FrontEnd, RawImapSession

    ctx = RunCtx(program, opts)
    world = ctx.world
    loop = ctx.env.loop
    world.known = KnownFindings()
    fe = FrontEnd(world, ctx.jail, {"alice": {"password": "alicepw"}})

    async def main():
        await fe.start()
        s = RawImapSession(world, "pa", "10.3.0.1")
        world.net.connect(fe.imap_port, s, addr="10.3.0.1", seg_c2s=program.get("seg", "whole"))
        await s.wait_greeting()
        ctx.nontrivial = True
        for ln in program["lines"]:
            if s.lost:
                break
            r = await s.command(ln, timeout=100.0)
            world.count("c06_answered")
            if r.status is None and not s.lost and not r.closed:
                world.violate(PROP, "no_tagged_reply", session="pa", cmd=ln[:60], waited=100, state="not authenticated", untagged=[u.raw[:80].decode("latin-1") for u in r.untagged][:3])
                break
            if ln.upper().startswith("LOGOUT"):
                break
        s.close()

    extra = {}
    try:
        loop.run_until_complete(loop.create_task(main(), name="c06-preauth"))
    except SimQuiescent:
        extra["harness_error"] = "quiescent"
    except StepLimit:
        extra["harness_error"] = "step cap"
    res = ctx.result(extra)
    ctx.cleanup()
    return res


_generate_a = generate


def generate(seed, tier, index, kf):
    if index % 10 == 9:
        return generate_preauth(seed, tier)
    return _generate_a(seed, tier, index, kf)


def execute(program, opts):
    if program.get("family") == "preauth":
        return execute_preauth(program, opts)
    return worlda.execute(program, opts)


def simplifications(program):
    if program.get("family") == "preauth":
        return [dict(program, lines=program["lines"][:i] + program["lines"][i + 1:]) for i in range(len(program["lines"]))]
    return worlda.simplifications(program)
