"""C19 - the front-end relays exactly the commands the byte stream denotes."""

import asyncio
import random
import re

from harness import worlda
from harness.driver import KnownFindings
from harness.runctx import RunCtx
from sim.loop import SimQuiescent, StepLimit
from sim.worldb import FrontEnd

PROP = "C19"
CONFIG = worlda.base_config(
    rule="World B with a scripted responder behind the real front-end (IMAPClient.start / IMAPSubprocessInterface): after LOGIN the client sends a generated "
    "byte stream of commands with 0-3 literals each (synchronising and {n+}), literal octets that look like commands / contain bare CR, LF and '{5}' "
    "look-alikes, empty lines, literals and commands just below / at / above the (knob-lowered) MAX_INPUT_SIZE and lines near the 64 KiB stream limit, under "
    "seeded segmentation of the link (1-7 byte chunks, mixed, coalesced, whole writes; latency swarm). A well-behaved client waits for '+' before a "
    "synchronising literal and goes on with the next command after a refused one. Compared: the frames the responder received vs the commands the stream "
    "denotes (by construction), the '+' continuations, a BAD for every over-limit item, and every later command still framed. Reverse direction: the "
    "responder's seeded response streams (many short lines, literals up to 300 KiB, CRLF-free runs longer than the 128 KiB relay limit) must reach the "
    "client byte for byte. non-trivial = >=1 literal or refusal in the stream; distinct = (stream shape, segmentation) signatures",
    level_text="differential check of the real front-end's framing against the denotation of a constructed byte stream under seeded network segmentation and "
    "timing; exploration over streams and schedules.",
)
CONFIG["real"] = ["asimap.server (IMAPServer.new_client, IMAPClient.start, IMAPSubprocessInterface incl. msgs_to_client)", "asimap.client.PreAuthenticated", "asimap.auth/throttle/hashers",
                  "asyncio StreamReader/StreamWriter/StreamReaderProtocol (production limits: 64 KiB client side, 128 KiB relay side)"]
CONFIG["stub"] = worlda.STUB + ["the per-user process (scripted responder that records frames and emits seeded responses)", "TLS"]
FE_LINES = [b"+ Ready for more input\r\n", b"* BAD We do not accept empty messages.\r\n", b"* BAD literal size exceeds maximum allowed size\r\n", b"* BAD command exceeds maximum allowed size\r\n"]
LITERAL_POOL = [
    b"hello", b"", b"a9 LOGOUT\r\n", b"x1 NOOP\r\nx2 NOOP\r\n", b"{5}\r\nabcde", b"bare\rcr and bare\nlf", b"\r\n", b"tail {3}", b"\x00\xff\xfe binary", b"ends with cr\r",
    b"a {2+}\r\nxy", b" ", b"+ Ready for more input\r\n",
]


def build_stream(r, max_input, reverse=False):
    """-> script (list of ("send", bytes) | ("wait+",)), expected frames, counts"""
    script = []
    frames = []
    n_cont = 0
    n_bad = 0
    refusals_before = []
    ncmd = r.randint(3, 14)
    tagno = 0
    shape = []
    for ci in range(ncmd):
        x = r.random()
        if x < 0.07 and not reverse:
            script.append(("send", b"\r\n"))
            n_bad += 1
            shape.append("empty")
            continue
        tagno += 1
        tag = b"t%d" % tagno
        verb = r.choice((b"NOOP", b"APPEND inbox", b"SEARCH TEXT", b"LOGIN", b"XFOO arg", b"FETCH 1 (BODY[])", b"STORE 1 +FLAGS (\\Seen)", b"SELECT"))
        if not reverse and r.random() < 0.06:
            # one long line (no literal): under the limit it is a command like any other
            verb = b'SEARCH SUBJECT "' + b"x" * r.choice((60000, 65500, 65536, 70000, 131072, 200000)) + b'"'
        nlit = r.choice((0, 0, 0, 1, 1, 2, 3))
        long_tail = False
        if not reverse and r.random() < 0.05:
            # a line longer than the limit that ends in a literal header
            verb = b'SEARCH SUBJECT "' + b"y" * (max_input + r.choice((10, 5000, 200000))) + b'"'
            nlit = 1
            long_tail = True
        # a command that exceeds the total size limit (crossed at one of its literals): sent with
        # non-synchronising literals only, so that the client has nothing to wait for once it is refused
        big_cmd = (not reverse) and r.random() < 0.1 and not long_tail
        if big_cmd:
            nlit = r.randint(1, 3)
            big_at = r.randrange(nlit)
        pieces = [tag + b" " + verb]
        if long_tail:
            pass
        lits = []
        total = len(pieces[0])
        over = None
        sends = []
        cur = bytearray(pieces[0])
        for li in range(nlit):
            y = r.random()
            if big_cmd:
                y = 1.0
            if big_cmd and li == big_at:
                data = bytes(r.choice(b"abcdefgh \r\n{}0123456789") for _ in range(64)) * (max_input // 64 + 1)
                data = data[: max_input - r.choice((0, 1, 5, len(pieces[0])))]
            elif y < 0.12 and not reverse:
                size = r.choice((max_input - 1, max_input, max_input + 1, max_input + 200)) - r.choice((0, 0, len(pieces[0]) + 10))
                size = max(size, 1)
                data = bytes(r.getrandbits(8) for _ in range(min(size, 64))) * (size // 64 + 1)
                data = data[:size]
            elif y < 0.2:
                data = bytes(r.choice(b"abcdefgh \r\n{}0123456789") for _ in range(r.randint(100, 3000)))
            else:
                data = r.choice(LITERAL_POOL)
            # once the command has grown over the limit it is refused: a well-behaved client
            # would be left waiting for a '+' that cannot come, so what follows is sent {n+}
            sync = r.random() < 0.5 and not reverse and not big_cmd and total <= max_input
            # a literal header may have any number of digits: leading zeros (more digits than int() converts, too)
            pad = r.choice((0, 0, 0, 0, 0, 3, 70, 130, 4400)) if not reverse else 0
            hdr_ = b" {%s%d%s}" % (b"0" * pad, len(data), b"" if sync else b"+")
            if long_tail and li == 0:
                # ... at the end of a line that is itself over the limit: the literal that follows is still a literal
                data = b"q99 NOOP\r\n"
                sync = False
                hdr_ = b" {%s%d+}" % (b"0" * r.choice((0, 40, 70, 100, 500)), len(data))
            cur += hdr_
            lits.append((data, sync))
            if len(data) > max_input:
                # the front-end refuses the literal (no '+' for a synchronising one)
                sends.append(("send", bytes(cur) + b"\r\n"))
                if not sync:
                    # the octets are already on the wire: they must be skipped, not parsed
                    sends.append(("send", data + b"\r\n"))
                over = "literal" if sync else "literal+"
                break
            sends.append(("send", bytes(cur) + b"\r\n"))
            if sync:
                sends.append(("wait+",))
            total += len(hdr_) + 2 + len(data)
            cur = bytearray()
            sends.append(("send", data))
            if r.random() < 0.5:
                more = r.choice((b" more", b" (\\Seen)", b" x"))
                cur += more
                total += len(more)
            pieces.append(data)
        if over is None:
            sends.append(("send", bytes(cur) + b"\r\n"))
        # what the stream denotes
        if over is not None:
            n_bad += 1
            n_cont += sum(1 for d, s in lits[:-1] if s)
            shape.append("over-" + over)
            script.extend(sends)
            refusals_before.append(len(frames))
            continue
        n_cont += sum(1 for d, s in lits if s)
        body = b"".join(p[1] for p in sends if p[0] == "send")
        frame = body[:-2]  # without the final CRLF
        if total > max_input:
            n_bad += 1
            shape.append("over-command")
            refusals_before.append(len(frames))
        else:
            frames.append(frame)
            shape.append(f"cmd{len(lits)}")
        script.extend(sends)
    # sentinel
    script.append(("send", b"zz9 NOOP\r\n"))
    frames.append(b"zz9 NOOP")
    return script, frames, n_cont, n_bad, refusals_before, shape


def gen_response(r, i, tag, reverse, bounds=None):
    """bounds (list): receives the offsets inside the returned bytes at which a complete response ends"""
    if not reverse:
        return tag + b" OK r%d\r\n" % i
    out = bytearray()
    for _ in range(r.randint(0, 6)):
        if bounds is not None:
            bounds.append(len(out))
        y = r.random()
        if y < 0.5:
            out += b"* %d EXISTS\r\n" % r.randint(0, 99)
        elif y < 0.85:
            n = r.choice((0, 1, 10, 1000, 70000, 140000, 300000))
            if r.random() < 0.5:
                data = bytes(r.choice(b"abcdefghij") for _ in range(min(n, 200))) * (n // 200 + 1)  # no CRLF at all
            else:
                data = (b"line of text\r\n" * (n // 14 + 1))
            data = data[:n]
            out += b"* %d FETCH (BODY[] {%d}\r\n" % (r.randint(1, 9), n) + data + b")\r\n"
        elif y < 0.93:
            # a literal header at the end of a line that is longer than any stream buffer
            n = r.choice((10, 1000, 300000, 1000000))
            data = (b"line of text\r\n" * (n // 14 + 1))[:n]
            out += b"* %d FETCH (X-LONG \"" % r.randint(1, 9) + b"h" * r.choice((70000, 140000, 200000)) + b"\" BODY[] {%d}\r\n" % n + data + b")\r\n"
        else:
            out += b"* OK [ALERT] " + bytes(r.choice(b"xyz ") for _ in range(r.randint(0, 900))) + b"\r\n"
    if bounds is not None:
        bounds.append(len(out))
    out += tag + b" OK r%d\r\n" % i
    if bounds is not None:
        bounds.append(len(out))
    return bytes(out)


class StreamClient:
    def __init__(self, world):
        self.world = world
        self.loop = world.loop
        self.buf = bytearray()
        self.lost = False
        self.waiters = []
        self.transport = None

    def connection_made(self, t):
        self.transport = t

    def data_received(self, data):
        self.buf += data
        for w in self.waiters:
            if not w.done():
                w.set_result(True)
        self.waiters = []

    def eof_received(self):
        return False

    def connection_lost(self, exc):
        self.lost = True
        for w in self.waiters:
            if not w.done():
                w.set_result(False)

    def pause_writing(self):
        pass

    def resume_writing(self):
        pass

    async def wait_for(self, pred, timeout):
        deadline = self.loop.time() + timeout
        while True:
            if pred():
                return True
            if self.lost:
                return pred()
            rem = deadline - self.loop.time()
            if rem <= 0:
                return False
            w = self.loop.create_future()
            self.waiters.append(w)
            try:
                await asyncio.wait_for(w, rem)
            except asyncio.TimeoutError:
                return pred()


def execute(program, opts):
    ctx = RunCtx(program, opts)
    world = ctx.world
    env = ctx.env
    loop = env.loop
    world.known = KnownFindings()
    r = random.Random(program["seed"] ^ 0xC19)
    reverse = program.get("reverse", False)
    mixed = program.get("mixed", False)  # client stream with synchronising literals AND responses with literals, overlapping
    boundaries = {0}
    max_input = program["knobs"]["max_input"]
    script, frames_exp, n_cont, n_bad, refusals_before, shape = build_stream(random.Random(program["stream_seed"]), max_input, reverse)
    fe = FrontEnd(world, ctx.jail, {"alice": {"password": "alicepw"}})
    got_frames = []
    sent_by_responder = bytearray()
    V = world.violate
    C = world.count
    rr = random.Random(program["stream_seed"] ^ 0x5151)

    async def responder_handler(reader, writer):
        i = 0
        try:
            while True:
                hdr = await reader.readuntil(b"\n")
                m = re.match(rb"\{(\d+)\}\n$", hdr)
                if not m:
                    got_frames.append(b"<<bad frame header %r>>" % hdr[:40])
                    break
                data = await reader.readexactly(int(m.group(1)))
                got_frames.append(data)
                tag = data.split(b" ", 1)[0][:20] or b"*"
                bl = [] if mixed else None
                resp = gen_response(rr, i, tag, reverse or mixed, bl)
                i += 1
                base = len(sent_by_responder)
                sent_by_responder.extend(resp)
                if mixed:
                    boundaries.update(base + b_ for b_ in bl)
                    # the user process takes its time: the response goes out in pieces
                    k_ = 0
                    while k_ < len(resp):
                        step = rr.choice((7, 40, 200, 5000, 70000))
                        writer.write(resp[k_:k_ + step])
                        await writer.drain()
                        k_ += step
                        await asyncio.sleep(rr.choice((0.0, 0.0, 0.001, 0.01, 0.05)))
                else:
                    writer.write(resp)
                    await writer.drain()
        except (asyncio.IncompleteReadError, ConnectionError, asyncio.LimitOverrunError):
            pass

    async def responder(username):
        srv = await asyncio.start_server(responder_handler, "127.0.0.1", 0, limit=2 ** 24)
        return srv.sockets[0].getsockname()[1]

    fe.responder = responder

    async def main():
        await fe.start()
        c = StreamClient(world)
        world.net.connect(fe.imap_port, c, addr="10.2.0.1", seg_c2s=program["seg"], seg_s2c=program.get("seg_back", "whole"))
        await c.wait_for(lambda: b"\r\n" in c.buf, 30)
        del c.buf[:]
        c.transport.write(b'l1 LOGIN alice "alicepw"\r\n')
        if not await c.wait_for(lambda: b"l1 OK" in c.buf and c.buf.endswith(b"completed\r\n"), 60):
            raise RuntimeError("login through the front-end failed: %r" % bytes(c.buf[:200]))
        del c.buf[:]
        conts_seen = 0
        stalled = False
        for item in script:
            if item[0] == "send":
                c.transport.write(item[1])
                if program.get("pace"):
                    await asyncio.sleep(rr.choice((0.0, 0.0, 0.001, 0.02)))
            else:
                want = conts_seen + 1
                # (behind a small socket buffer and a slow link the relay of one large literal takes its time, and the
                # '+' rightly waits for its end)
                ok = await c.wait_for(lambda: bytes(c.buf).count(FE_LINES[0]) >= want, 60000 if program.get("knobs", {}).get("sock_buf") else 900)
                if not ok:
                    C("c19_continuation")
                    V(PROP, "continuation_missing", after=conts_seen, expected_total=n_cont, shape=shape)
                    stalled = True
                    break
                conts_seen = want
        # wait for the sentinel's reply (or the connection's end)
        if not stalled:
            await c.wait_for(lambda: b"zz9 OK" in bytes(c.buf[-4096:]), 120000 if program.get("knobs", {}).get("sock_buf") else 6000)
        await asyncio.sleep(1.0)
        ctx.nontrivial = any(s != "cmd0" for s in shape)
        ctx.sig(tuple(shape), program["seg"])
        data = bytes(c.buf)
        # ---- frames
        C("c19_frames")
        if not stalled:
            if got_frames != frames_exp:
                k = 0
                while k < min(len(got_frames), len(frames_exp)) and got_frames[k] == frames_exp[k]:
                    k += 1
                after_refusal = any(rb <= k for rb in refusals_before)
                if k < len(got_frames) and k < len(frames_exp):
                    g, e = got_frames[k], frames_exp[k]
                    if g in frames_exp[k + 1:]:
                        V(PROP, "later_command_dropped" if after_refusal else "frame_missing", index=k, missing=e[:80], shape=shape, seg=program["seg"])
                    elif e in got_frames[k + 1:] or not re.match(rb"^(t\d+|zz9) ", g):
                        V(PROP, "literal_parsed_as_command", index=k, frame=g[:80], shape=shape, seg=program["seg"])
                    else:
                        V(PROP, "frame_differs", index=k, got=g[:120], expected=e[:120], shape=shape, seg=program["seg"])
                elif k < len(frames_exp):
                    V(PROP, "later_command_dropped" if after_refusal else "frame_missing", index=k, missing=frames_exp[k][:80], got=len(got_frames), expected=len(frames_exp),
                      shape=shape, seg=program["seg"], client_lost=c.lost)
                else:
                    g = got_frames[k]
                    V(PROP, "literal_parsed_as_command" if not re.match(rb"^(t\d+|zz9) ", g) else "frame_extra", index=k, frame=g[:80], shape=shape)
        # ---- continuations / refusals
        C("c19_continuation")
        seen_cont = data.count(FE_LINES[0])
        if not stalled and seen_cont > n_cont:
            V(PROP, "continuation_spurious", seen=seen_cont, expected=n_cont, shape=shape)
        C("c19_refusals")
        seen_bad = sum(data.count(x) for x in FE_LINES[1:])
        if not stalled and seen_bad < n_bad:
            V(PROP, "overlimit_not_refused", seen=seen_bad, expected=n_bad, shape=shape, client_lost=c.lost)
        # ---- relay integrity: what the responder wrote reaches the client unmodified, in order
        C("c19_relay")
        rest = data
        if mixed:
            # what the front-end says itself ('+', BAD) may only stand between complete responses of the user process
            C("c19_interleave")
            pos = 0  # offset in the user process's stream
            k_ = 0
            kept = bytearray()
            while k_ < len(data):
                hit = None
                if data[k_:k_ + 1] in (b"+", b"*"):
                    for ln in FE_LINES:
                        if data.startswith(ln, k_):
                            hit = ln
                            break
                if hit is not None:
                    if pos not in boundaries:
                        V(PROP, "relay_interleaved", at=pos, inserted=hit[:40], context=bytes(kept[-50:]))
                        break
                    k_ += len(hit)
                    continue
                kept.append(data[k_])
                pos += 1
                k_ += 1
        if not reverse:
            # (in reverse runs the stream is built so that the front-end has nothing of its own to say)
            for ln in FE_LINES:
                rest = rest.replace(ln, b"")
        exp = bytes(sent_by_responder)
        if rest != exp:
            if exp.startswith(rest):
                V(PROP, "relay_truncated", got=len(rest), expected=len(exp), client_lost=c.lost, tail=rest[-60:])
            else:
                k = 0
                m = min(len(rest), len(exp))
                while k < m and rest[k] == exp[k]:
                    k += 1
                V(PROP, "relay_modified", at=k, got=rest[k:k + 60], expected=exp[k:k + 60], got_len=len(rest), expected_len=len(exp))
        c.transport.close()

    extra = {}
    try:
        loop.run_until_complete(loop.create_task(main(), name="c19-main"))
    except SimQuiescent:
        extra["harness_error"] = "quiescent"
    except StepLimit:
        extra["harness_error"] = "step cap"
    extra["sample"] = {"seed": program.get("seed"), "seg": program["seg"], "max_input": max_input, "shape": shape, "frames_expected": len(frames_exp), "frames_got": len(got_frames),
                       "continuations": n_cont, "refusals": n_bad, "reverse": reverse}
    res = ctx.result(extra)
    ctx.cleanup()
    return res


def generate(seed, tier, index, kf):
    prog = _generate(seed, tier, index, kf)
    if prog.pop("slow_client", False):
        r2 = random.Random(seed ^ 0x77)
        prog["knobs"]["sock_buf"] = r2.choice((256, 1024))
        prog["latency"]["net"] = "slow"
        prog["step_cap"] = 4_000_000
    return prog


def _generate(seed, tier, index, kf):
    r = random.Random(seed)
    reverse = r.random() < 0.3
    mixed = (not reverse) and r.random() < 0.2
    return {
        "format": 1, "seed": seed, "world": "B", "stream_seed": r.getrandbits(40), "reverse": reverse, "mixed": mixed,
        "knobs": {"max_input": r.choice((2048, 4096, 8192, 65536, 262144)) if not reverse else 1 << 20},
        "seg": r.choice(("bytes", "mixed", "mixed", "whole", "coalesce", "big")), "seg_back": r.choice(("whole", "big")) if reverse else "whole",
        "pace": True if mixed else r.random() < 0.5,
        "latency": {"exec": "zero", "db": "zero", "net": r.choice(("zero", "small", "bimodal", "wide"))}, "ops": [], "props": [PROP],
        "step_cap": 1_500_000,
        # a client behind a small socket buffer and a slow link: relaying one large literal takes longer than any patience
        **({"slow_client": True} if mixed and r.random() < 0.3 else {}),
    }


def simplifications(program):
    out = []
    if program["seg"] != "whole":
        out.append(dict(program, seg="whole"))
    if program.get("pace"):
        out.append(dict(program, pace=False))
    if program["latency"]["net"] != "zero":
        out.append(dict(program, latency=dict(program["latency"], net="zero")))
    return out
