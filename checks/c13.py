"""C13 - mail delivered by MH tools appears correctly; MH tools see IMAP flag changes."""

from checks import _common
from harness import worlda

PROP = "C13"
CONFIG = worlda.base_config(
    rule="seeded histories in which an external MH agent (stdlib mailbox.MH only) delivers singles and batches, seen or `unseen`, atomically or split "
    "(file first, .mh_sequences later), into selected / idling / unselected mailboxes, interleaved with STORE, EXPUNGE of the highest-numbered "
    "message (so the next delivery re-uses its number), COPY/MOVE and NOOP/IDLE flushes; the agent waits until the folder mtime second has advanced. "
    "Checked: EXISTS growth and fresh larger UIDs by the next NOOP/CHECK/DONE, flags exactly the agent's, existing messages undisturbed, raw "
    ".mh_sequences mentions no dead key and equals the model's flags. non-trivial = >=1 delivery; distinct = op-kind signatures",
    level_text="seeded search over interleavings of external deliveries with IMAP commands on the real server with virtual file mtimes; oracle = reference "
    "model + an MH-tool-style read of the raw .mh_sequences file after every op.",
    expected_probes=["deliveries", "delivery_announced", "expunge_removed_messages"],
)

W = {
    "select": 2.5, "append": 1, "store": 4, "delete_flag": 3, "fetch": 2, "search": 0.5, "expunge": 3, "copy": 1, "move": 1.5,
    "noop": 5, "learn": 1, "deliver": 7, "wait": 2, "close": 0.5, "idle": 1.5,
}


def profile(r, tier, index):
    conc = r.random() < 0.35
    prof = {
        "mailboxes": ["inbox", "lists"][: r.randint(1, 2)], "sessions": r.randint(1, 3) if not conc else r.randint(2, 3), "weights": W, "init_hi": 5,
        "ops_lo": 8, "ops_hi": 40 if tier == "thorough" else 28, "mode": "concurrent" if conc else "sequential", "bad_set_p": 0.02, "examine_p": 0.1,
        "quiet_p": 0.1 if conc else 0.3, "keywords": "wild" if r.random() < 0.25 else "tame",
    }
    if not conc:
        prof["probe_p"] = r.choice((1.0, 1.0, 0.35, 0.1))
    if conc:
        # deliveries racing commands of several sessions: stream monitors + at quiescence every
        # delivered file must have been announced (disk vs the sessions' replayed views)
        prof["compare"] = False
        prof["weights"] = dict(W, fetch=5, store=6, deliver=6, noop=3, idle=0.5, wait=0.5)
        prof["fetch_items"] = ["(BODY.PEEK[])", "(UID FLAGS BODY.PEEK[])", "(FLAGS)", "(BODY[])", "(RFC822)", "(FLAGS BODY[TEXT])"]
    return prof


def post(prog, r, tier, prof):
    # bias: expunge the last message right before a delivery (number re-use)
    ops = prog["ops"]
    out = []
    idle = set()

    def awake():
        # (a session that is idling can only send DONE)
        c = [x["id"] for x in prog["sessions"] if x["id"] not in idle]
        return r.choice(c) if c else None

    for op in ops:
        if op.get("op") == "idle":
            idle.add(op["s"])
        elif op.get("op") == "done":
            idle.discard(op.get("s"))
        if op.get("op") == "deliver" and awake() is None:
            out.append(op)
            continue
        if op.get("op") == "deliver" and r.random() < 0.08:
            # the folder is emptied completely right before the delivery: number 1 is re-used
            s = awake()
            out.append({"s": s, "op": "select", "mbox": op["mbox"], "examine": False})
            out.append({"s": s, "op": "store", "uid": r.random() < 0.5, "set": {"all": True}, "how": "+", "flags": ["\\Deleted", r.choice(("\\Flagged", "\\Answered", "kw1"))], "silent": r.random() < 0.5})
            out.append({"s": s, "op": r.choice(("expunge", "close"))})
        elif op.get("op") == "deliver" and r.random() < 0.35:
            s = awake()
            out.append({"s": s, "op": "select", "mbox": op["mbox"], "examine": False})
            out.append({"s": s, "op": "store", "uid": False, "set": {"raw": "*"}, "how": "+", "flags": ["\\Deleted", "\\Flagged"], "silent": False})
            out.append({"s": s, "op": "expunge"})
        out.append(op)
    if prog["mode"] == "sequential" and r.random() < 0.12 and len(prof["mailboxes"]) > 1 and prog["sessions"][0]["id"] not in idle:
        # a mailbox with flagged messages is deleted while it has a child (the folder stays as a placeholder), an MH
        # agent delivers into the folder, the mailbox is created again: the new mail has the agent's flags only
        s = prog["sessions"][0]["id"]
        mb = prof["mailboxes"][1]
        out += [
            {"s": s, "op": "create", "name": mb + "/kid"},
            {"s": s, "op": "select", "mbox": mb, "examine": False},
            {"s": s, "op": "store", "uid": False, "set": {"all": True}, "how": "+", "flags": ["\\Answered", "\\Flagged", r.choice(("\\Seen", "kw1"))], "silent": True},
            {"s": s, "op": "close"},
            {"s": s, "op": "delete", "name": mb},
            {"actor": "agent", "op": "deliver", "mbox": mb, "count": r.choice((1, 2)), "unseen": True, "split": False},
            {"s": s, "op": "create", "name": mb},
            {"s": s, "op": "select", "mbox": mb, "examine": False},
            {"s": s, "op": "fetch", "uid": False, "set": {"all": True}, "items": "(UID FLAGS)"},
            {"s": s, "op": "noop"},
        ]
    prog["ops"] = out
    if prog["mode"] == "concurrent":
        for op in prog["ops"]:
            op["when"] = {"delay": r.choice((0.0, 0.0, 0.001, 0.01, 0.05, 0.3, 1.2))}
    return prog


_generate, execute, simplifications = _common.make(PROP, profile, CONFIG, post)


def generate(seed, tier, index, kf):
    """85 %: the histories above. 15 %: 'flag race' programs - one session's non-peek FETCH over
    several messages (suspended between messages) while another session STOREs a disjoint
    message and/or an MH agent delivers with `unseen`, and then nothing else happens: at
    quiescence .mh_sequences must show what the IMAP side reports (disk_flags_at_quiescence)."""
    import random

    r = random.Random(seed ^ 0x13AC)
    if r.random() >= 0.15:
        return _generate(seed, tier, index, kf)
    prog = _generate(seed, tier, index, kf)
    prog["mode"] = "concurrent"
    prog["compare"] = False
    prog["sessions"] = [{"id": "sa", "proto": "imap"}, {"id": "sb", "proto": "imap"}]
    box = prog["store"]["mailboxes"][0]
    while len(box["msgs"]) < r.randint(8, 14):
        tok = 500 + len(box["msgs"])
        box["msgs"].append({"tok": tok, "key": (box["msgs"][-1]["key"] + 1) if box["msgs"] else 1, "flags": [], "date": 1_690_000_000 + tok, "shape": "plain"})
    n = len(box["msgs"])
    name = box["name"]
    ops = [{"s": "sa", "op": "select", "mbox": name, "examine": False, "when": {"delay": 0.0}}, {"s": "sb", "op": "select", "mbox": name, "examine": False, "when": {"delay": 0.0}}]
    peek = r.random() < 0.5  # variant in which nothing touches \\Seen: the delivered message must keep what the agent gave it
    for _ in range(r.randint(1, 2)):
        k = r.randint(4, n - 2)
        first = sorted(r.sample(range(1, k + 1), r.randint(3, k)))
        other = r.randint(k + 1, n)
        base = r.choice((0.5, 1.0, 2.0))
        ops.append({"s": "sa", "op": "fetch", "uid": r.random() < 0.5, "set": {"pos": first}, "items": r.choice(("(BODY.PEEK[])", "(BODY.PEEK[HEADER])", "(UID BODY.PEEK[TEXT])")) if peek else r.choice(("(BODY[])", "(RFC822)", "(FLAGS BODY[TEXT])", "(FLAGS)")), "when": {"delay": base}})
        x = r.random()
        if peek and r.random() < 0.4:
            # the last message is expunged while an MH agent delivers: the freed number is re-used at once
            ops.append({"s": "sb", "op": "store", "uid": False, "set": {"raw": "*"}, "how": "+", "flags": ["\\Deleted", "\\Flagged"], "silent": r.random() < 0.5, "when": {"delay": base}})
            ops.append({"s": "sb", "op": "expunge", "when": {"delay": r.choice((0.0, 0.01, 0.1))}})
        elif x < 0.7 or peek:
            # (peek variant: addressed by UID - the initial messages have UIDs 1..n - so that it can never name a delivered message)
            ops.append({"s": "sb", "op": "store", "uid": True if peek else r.random() < 0.5, "set": {"uids": [other]} if peek else {"pos": [other]}, "how": r.choice("+-="), "flags": [r.choice(("\\Flagged", "\\Answered", "kw1", "\\Deleted"))], "silent": r.random() < 0.3, "when": {"delay": base + r.choice((0.0, 0.001, 0.005, 0.02, 0.1, 0.3, 0.8))}})
        if x > 0.5 or peek:
            ops.append({"actor": "agent", "op": "deliver", "mbox": name, "count": 1, "unseen": True, "split": False, "advance": (r.random() < 0.6) if peek else r.random() < 0.5, "when": {"delay": base + r.choice((0.0, 0.002, 0.02, 0.1, 0.4, 1.0))}})
    prog["ops"] = ops
    prog["family"] = "flag-race"
    if peek:
        prog["seen_oracle"] = "strict"  # and no STORE can name a delivered message: it carries nothing but (un)seen and \\Recent
    # a slow reader on a small socket buffer: the FETCH really is suspended between messages
    prog["knobs"] = dict(prog.get("knobs") or {}, sock_buf=r.choice((128, 256, 1024)))
    prog["latency"] = dict(prog.get("latency") or {}, net=r.choice(("small", "bimodal", "slow", "wide")))
    return prog
