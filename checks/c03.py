"""C03 - a UID always names the same message."""

from checks import _common
from harness import worlda

PROP = "C03"
CONFIG = worlda.base_config(
    rule="seeded histories over content-tagged messages in folders laid out with sparse MH keys and a lowered pack threshold (so that the gap ratio crosses "
    "it and the folder is renumbered), mixing expunge/move of arbitrary subsets, appends, copies, deliveries, rename and orderly restart, with idle waits "
    "of 1-25 virtual seconds so the management task reaches its pack path; 1-2 sessions. After every op the observer's UID FETCH 1:* (BODY.PEEK[] "
    "INTERNALDATE) must return byte-identical content and date for every UID seen before, sequence numbers 1..n must map one-to-one onto ascending UIDs and "
    "the (uid, token) list must equal the model. non-trivial = >=1 removal or pack-relevant op; distinct = op signatures",
    level_text="content-stability and seq/UID/message bijection checked against first-observation references and the reference model after every op of seeded "
    "histories; packing is made reachable by randomising the two pack knobs per run.",
    expected_probes=["pack_ran", "expunge_removed_messages"],
)

W = {
    "select": 2, "append": 3, "store": 1, "delete_flag": 5, "fetch": 2, "expunge": 5, "copy": 2, "move": 3, "noop": 2, "learn": 0.5,
    "deliver": 2, "wait": 4, "close": 1, "rename": 0.8, "restart": 0.6, "search": 0.3,
}


def profile(r, tier, index):
    return {
        "mailboxes": ["inbox", "work"], "sessions": r.randint(1, 2), "weights": W, "init_lo": 3, "init_hi": 12, "sparse": True,
        "ops_lo": 10, "ops_hi": 45 if tier == "thorough" else 30, "mode": "sequential", "pack_knob": True, "pack_p": 0.9, "bad_set_p": 0.02,
        "name_alphabet": ["new", "old", "x"], "shapes": None,
        "fetch_items": ["(UID BODY.PEEK[])", "(UID INTERNALDATE)", "(BODY.PEEK[HEADER.FIELDS (X-Tok)])", "(UID FLAGS)"],
    }


generate, execute, simplifications = _common.make(PROP, profile, CONFIG)
