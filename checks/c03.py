"""C03 - a UID always names the same message."""

from checks import _common
from harness import worlda

PROP = "C03"
CONFIG = worlda.base_config(
    rule="seeded histories over content-tagged messages in folders laid out with sparse MH keys and a lowered pack threshold (so that the gap ratio crosses "
    "it and the folder is renumbered), mixing expunge/move of arbitrary subsets, appends, copies, deliveries, rename and orderly restart, with idle waits "
    "of 1-25 virtual seconds so the management task reaches its pack path; 1-2 sessions. After every op the observer's UID FETCH 1:* (BODY.PEEK[] "
    "INTERNALDATE) must return byte-identical content and date for every UID seen before, sequence numbers 1..n must map one-to-one onto ascending UIDs and "
    "the (uid, token) list must equal the model. A second family (40% of the programs) runs 2-3 sessions concurrently on one mailbox under the full latency "
    "swarm - one expunging/moving/closing while the others UID FETCH body items and (UID) STORE - with three oracles that hold under every schedule: a UID "
    "FETCH returns the requested items only for UIDs of its set (uid_fetch_wrong_message) and for every UID of the set that is still there at the end "
    "(uid_fetch_missing); every STORE carries a keyword unique to it, and at quiescence the observer finds that keyword only on messages the command's set "
    "denoted when it was sent (store_hit_wrong_message; sequence numbers denote through the session's replayed view). "
    "non-trivial = >=1 removal or pack-relevant op; distinct = op signatures",
    level_text="content-stability and seq/UID/message bijection checked against first-observation references and the reference model after every op of seeded "
    "histories; packing is made reachable by randomising the two pack knobs per run.",
    expected_probes=["pack_ran", "expunge_removed_messages"],
)

W = {
    "select": 2, "append": 3, "store": 1, "delete_flag": 5, "fetch": 2, "expunge": 5, "copy": 2, "move": 3, "noop": 2, "learn": 0.5,
    "deliver": 2, "wait": 4, "close": 1, "rename": 0.8, "restart": 0.6, "search": 0.3,
}


CONC_W = {
    "select": 1, "append": 1, "store": 5, "delete_flag": 4, "fetch": 6, "expunge": 5, "move": 2.5, "copy": 1, "noop": 1.5, "close": 0.7, "deliver": 1, "wait": 0.5,
}


def profile(r, tier, index):
    if r.random() < 0.4:
        return {
            "mailboxes": ["inbox", "work"][: r.randint(1, 2)], "sessions": r.randint(2, 3), "weights": CONC_W, "init_lo": 4, "init_hi": 10, "sparse": r.random() < 0.5,
            "ops_lo": 12, "ops_hi": 40 if tier == "thorough" else 30, "mode": "concurrent", "compare": False, "tag_stores": True, "bad_set_p": 0.02,
            "pack_knob": r.random() < 0.3, "pack_p": 0.9, "quiet_p": 0.1, "examine_p": 0.0,
            "fetch_items": ["(UID BODY.PEEK[])", "(UID INTERNALDATE)", "(BODY.PEEK[HEADER.FIELDS (X-Tok)])", "(UID BODY.PEEK[HEADER.FIELDS (X-Tok)] FLAGS)"],
        }
    return {
        "mailboxes": ["inbox", "work"], "sessions": r.randint(1, 2), "weights": W, "init_lo": 3, "init_hi": 12, "sparse": True,
        "ops_lo": 10, "ops_hi": 45 if tier == "thorough" else 30, "mode": "sequential", "probe_p": r.choice((1.0, 1.0, 0.35, 0.1)), "pack_knob": True, "pack_p": 0.9, "bad_set_p": 0.02,
        "name_alphabet": ["new", "old", "x"], "shapes": None,
        "fetch_items": ["(UID BODY.PEEK[])", "(UID INTERNALDATE)", "(BODY.PEEK[HEADER.FIELDS (X-Tok)])", "(UID FLAGS)"],
    }


def post(prog, r, tier, prof):
    if prog["mode"] != "concurrent" and r.random() < 0.4:
        # deliveries the server cannot notice (same mtime second) followed by idle time: the pack path meets unknown files
        _common.inject_stealth(prog, r, 0.3)
    if prog["mode"] == "concurrent":
        for op in prog["ops"]:
            op["when"] = {"delay": r.choice((0.0, 0.0, 0.0, 0.001, 0.01, 0.05, 0.3))}
    return prog


generate, execute, simplifications = _common.make(PROP, profile, CONFIG, post)
