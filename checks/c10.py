"""C10 - concurrent sessions behave like some sequential order and never deadlock.

Burst programs: a sequential prologue builds and verifies a known state S0,
then each of 2-3 sessions gets 1-4 commands released within a few virtual
milliseconds so that they overlap under the seeded I/O schedule, then a
sequential epilogue observes the final state F.  Oracle 1 searches all
interleavings that respect each session's own order (COPY = read + add,
MOVE = read + add + remove as separately interleavable steps) for one whose
modelled results equal the observed ones and whose final state equals F.
Oracle 2: every command completes promptly (no deadlock / starvation).
"""

import asyncio
import random

from gen import mailstore
from harness import worlda
from harness.interp import Interp, code_of, norm_flags, parse_uidset, quote, fmt_internaldate
from gen import corpus
from model.resp import Atom, fetch_items
from sim.world import PROMPT_BOUND

PROP = "C10"
CONFIG = worlda.base_config(
    rule="burst programs: sequential prologue to a verified state S0 (2 mailboxes, 3-8 messages each, every session selected with a fully known view), then "
    "1-4 commands per session (UID STORE +/-/= flags, UID FETCH FLAGS, UID SEARCH by flag, APPEND, UID COPY / UID MOVE in both directions between the two "
    "mailboxes, EXPUNGE, UID EXPUNGE, CLOSE, NOOP, CHECK, POP3 DELE+QUIT) from 2-3 sessions released within a few virtual ms under the full latency swarm "
    "(executor, sqlite worker, network, timer_late, gc); sequential epilogue reads the final state. For every burst ALL interleavings respecting per-session "
    "order are searched (memoised DFS, pruned by observed results) for one that reproduces every response and the final state. A second family runs longer "
    "random concurrent workloads incl. DELETE/RENAME of mailboxes with queued commands with the progress oracle only. non-trivial = >=2 commands overlapped "
    "in virtual time; distinct = distinct (session, verb) arrival/completion order signatures",
    level_text="sequential-consistency search (exactly the condition the statement gives: per-session order, not real-time order) over all interleavings of "
    "each observed burst, plus bounded-latency progress; the bursts and schedules themselves are sampled by seeded search.",
    expected_probes=["command_waited_for_conflict"],
)
FLAGS = ["\\Seen", "\\Flagged", "\\Deleted", "\\Answered", "kw1"]
KEYS = ["SEEN", "UNSEEN", "FLAGGED", "DELETED", "UNDELETED", "ANSWERED", "KEYWORD kw1", "ALL"]


# ---------------------------------------------------------------------------
# pure model for the search: state = {box: tuple((uid, frozenset(flags)), ...)}
#
def st_key(state):
    return tuple(sorted((b, msgs) for b, msgs in state.items()))


def eval_key(msgs, key):
    k = key.upper()
    f = {
        "ALL": lambda fl: True, "SEEN": lambda fl: "\\seen" in fl, "UNSEEN": lambda fl: "\\seen" not in fl, "FLAGGED": lambda fl: "\\flagged" in fl,
        "DELETED": lambda fl: "\\deleted" in fl, "UNDELETED": lambda fl: "\\deleted" not in fl, "ANSWERED": lambda fl: "\\answered" in fl,
        "KEYWORD KW1": lambda fl: "kw1" in fl,
    }[k]
    return tuple(u for u, fl in msgs if f(fl))


def steps_of(op):
    """Atomic steps of one observed op (each may be interleaved with other sessions' steps)."""
    k = op["kind"]
    if k == "copy":
        return [("read", op), ("add", op)]
    if k == "move":
        return [("read", op), ("add", op), ("remove", op)]
    return [(k, op)]


def apply_step(state, step):
    """-> new state, or None if the observed result is impossible here."""
    kind, op = step
    box = op.get("box")
    msgs = state.get(box, ())
    obs = op["obs"]
    if obs.get("refused") and kind not in ("add", "remove"):
        # a refused command has no effect; it is consistent anywhere
        return state
    if kind == "store":
        want = set(op["uids"])
        new = []
        seen = {}
        for u, fl in msgs:
            if u in want:
                f = set(fl)
                add = set(op["flags"])
                if op["how"] == "+":
                    f |= add
                elif op["how"] == "-":
                    f -= add
                else:
                    f = add
                fl = frozenset(f)
                seen[u] = fl
            new.append((u, fl))
        # the FETCH FLAGS lines of the STORE show exactly the addressed existing messages
        if obs["flags"] != seen:
            return None
        s2 = dict(state)
        s2[box] = tuple(new)
        return s2
    if kind == "fetch":
        cur = {u: fl for u, fl in msgs if u in set(op["uids"])}
        return state if obs["flags"] == cur else None
    if kind == "search":
        return state if tuple(sorted(obs["uids"])) == tuple(sorted(eval_key(msgs, op["key"]))) else None
    if kind == "append":
        uid = obs["uid"]
        if msgs and uid <= max(u for u, _ in msgs):
            return None
        s2 = dict(state)
        s2[box] = msgs + ((uid, frozenset(op["flags"])),)
        return s2
    if kind == "read":
        have = tuple(u for u, _ in msgs if u in set(op["uids"]))
        if tuple(sorted(obs["src"])) != tuple(sorted(have)):
            return None
        # remember the flags that were read (carried to the copy)
        op["_read"] = {u: fl for u, fl in msgs if u in set(op["uids"])}
        return dict(state, **{"_r" + str(op["n"]): tuple(sorted((u, tuple(sorted(fl))) for u, fl in op["_read"].items()))})
    if kind == "add":
        if obs.get("refused"):
            return state
        dst = op["dst"]
        dm = state.get(dst, ())
        rd = dict((u, frozenset(fl)) for u, fl in state.get("_r" + str(op["n"]), ()))
        pairs = sorted(zip(obs["dst"], obs["src"]))
        if dm and pairs and pairs[0][0] <= max(u for u, _ in dm):
            return None
        add = tuple((du, rd.get(su, frozenset())) for du, su in pairs)
        s2 = dict(state)
        s2[dst] = dm + add
        s2.pop("_r" + str(op["n"]), None) if op["kind"] == "copy" else None
        return s2
    if kind == "remove":
        if obs.get("refused"):
            return state
        gone = set(obs["src"])
        s2 = dict(state)
        s2[box] = tuple((u, fl) for u, fl in msgs if u not in gone)
        s2.pop("_r" + str(op["n"]), None)
        return s2
    if kind in ("expunge", "close"):
        dele = {u for u, fl in msgs if "\\deleted" in fl}
        if op.get("restrict") is not None:
            dele &= set(op["restrict"])
        if kind == "expunge" and obs.get("expunged") is not None:
            told = set(obs["expunged"])
            # the session is told about its own expunges, plus any earlier removal by
            # others that it had not been told about yet
            here = {u for u, _ in msgs}
            if not dele <= told or any(u in here for u in told - dele):
                return None
        s2 = dict(state)
        s2[box] = tuple((u, fl) for u, fl in msgs if u not in dele)
        return s2
    if kind == "popquit":
        gone = set(op["uids"])
        s2 = dict(state)
        s2[box] = tuple((u, fl) for u, fl in msgs if u not in gone)
        return s2
    if kind in ("noop", "check"):
        return state
    raise ValueError(kind)


def search(s0, per_session, final):
    """DFS over interleavings; returns (found, explored)."""
    seqs = [sum((steps_of(op) for op in ops), []) for ops in per_session]
    memo = set()
    explored = [0]
    fin = st_key({k: v for k, v in final.items()})

    def clean(state):
        return {k: v for k, v in state.items() if not k.startswith("_r")}

    def rec(pos, state):
        explored[0] += 1
        if explored[0] > 200000:
            return None
        if all(p == len(s) for p, s in zip(pos, seqs)):
            return st_key(clean(state)) == fin
        key = (pos, st_key(state))
        if key in memo:
            return False
        memo.add(key)
        for i, s in enumerate(seqs):
            if pos[i] < len(s):
                s2 = apply_step(state, s[pos[i]])
                if s2 is not None:
                    r = rec(pos[:i] + (pos[i] + 1,) + pos[i + 1:], s2)
                    if r is None:
                        return None
                    if r:
                        return True
        return False

    r = rec(tuple(0 for _ in seqs), dict(s0))
    return r, explored[0]


# ---------------------------------------------------------------------------
class BurstInterp(Interp):
    async def run(self):
        if not await self.setup():
            return
        prog = self.prog
        # prologue (sequential, model-compared)
        for i, op in enumerate(prog.get("ops", [])):
            self.op_index = i
            await self.do_op(op)
        if prog.get("family") in ("random", "churn", "delete-race", "rename-race"):
            self.compare = False
            await self.run_concurrent(prog["burst_ops"])
            await self.teardown()
            return
        boxes = {n: self.model.box(n) for n in prog["boxes"]}
        if any(b is None or b.uncertain or any(m.uid is None for m in b.msgs) for b in boxes.values()):
            self.ctx.probe("burst_skipped_unknown_s0")
            await self.teardown()
            return
        s0 = {n: tuple((m.uid, m.flags) for m in b.msgs) for n, b in boxes.items()}
        self.compare = False
        burst = prog["burst"]
        per_session = {}
        pop = None

        async def run_session(sid, ops):
            sess = self.sessions[sid]
            ms = self.model.sessions[sid]
            out = []
            for op in ops:
                await asyncio.sleep(op.get("delay", 0.0))
                o = await self.burst_op(sess, ms, op)
                if o is not None:
                    out.append(o)
            per_session[sid] = out

        async def run_pop(ops):
            from sim.world import Pop3Session

            p = Pop3Session(self.world, "P")
            self.world.net.connect(self.node.port, p, addr="10.0.0.2")
            p.hello()
            st, lines, _ = await p.command("UIDL")
            pairs = {}
            for ln in lines or []:
                a = ln.split()
                if len(a) == 2 and a[0].isdigit():
                    pairs[int(a[0])] = int(a[1])
            dele = []
            for n in ops["dele"]:
                await asyncio.sleep(0.002)
                st, _, _ = await p.command(f"DELE {n}")
                if st is not None and st.startswith(b"+OK") and n in pairs:
                    dele.append(pairs[n])
            t0 = self.loop.time()
            st, _, _ = await p.command("QUIT")
            lat = self.loop.time() - t0
            if st is None or lat > PROMPT_BOUND:
                self.V("C10", "starvation", cmd="POP3 QUIT", latency=round(lat, 1))
            p.close()
            if st is not None and st.startswith(b"+OK"):
                per_session["P"] = [{"kind": "popquit", "box": "inbox", "uids": dele, "obs": {}, "n": 9000}]

        tasks = [self.loop.create_task(run_session(sid, ops), name=f"burst-{sid}") for sid, ops in burst["sessions"].items()]
        if burst.get("pop"):
            tasks.append(self.loop.create_task(run_pop(burst["pop"]), name="burst-pop"))
        done, pend = await asyncio.wait(tasks, timeout=400.0)
        if pend:
            self.V("C10", "starvation", pending=[t.get_name() for t in pend], waitfor=self.waitfor_picture())
            for t in pend:
                t.cancel()
            await self.teardown()
            return
        for t in done:
            if t.exception() is not None:
                raise t.exception()
        self.ctx.nontrivial = True
        # epilogue: final state
        await asyncio.sleep(0.5)
        final = {}
        for n, b in boxes.items():
            p = await self.probe_box(b)
            if p is None or not p["ok"]:
                self.ctx.probe("burst_final_probe_failed")
                await self.teardown()
                return
            final[n] = tuple((g["uid"], g["flags"]) for g in p["msgs"])
        if getattr(self, "client_dropped", False):
            await self.teardown()
            return
        seqs = [per_session[s] for s in sorted(per_session)]
        self.C("c10_serializability_search")
        found, explored = search(s0, seqs, final)
        self.ctx.probe("interleavings_explored", explored)
        if found is None:
            self.ctx.probe("search_budget_exhausted")
        elif not found:
            self.V(
                "C10", "not_serializable", s0={k: [(u, sorted(f)) for u, f in v] for k, v in s0.items()},
                final={k: [(u, sorted(f)) for u, f in v] for k, v in final.items()},
                observed={s: [{k: (sorted(v) if isinstance(v, (set, frozenset)) else v) for k, v in _brief(o).items()} for o in ops] for s, ops in sorted(per_session.items())},
                explored=explored,
            )
        await self.teardown()

    async def burst_op(self, sess, ms, op):
        k = op["kind"]
        box = op.get("box")
        n = op["n"]
        t0 = self.loop.time()
        o = dict(op)
        o["obs"] = {}
        view_before = list(sess.view or [])
        if k == "store":
            item = {"+": "+FLAGS", "-": "-FLAGS", "=": "FLAGS"}[op["how"]]
            r = await sess.command(f"UID STORE {','.join(map(str, op['uids']))} {item} ({' '.join(op['flags'])})")
            o["flags"] = [f.lower() if f.startswith("\\") else f for f in op["flags"]]
        elif k == "fetch":
            r = await sess.command(f"UID FETCH {','.join(map(str, op['uids']))} (FLAGS)")
        elif k == "search":
            r = await sess.command(f"UID SEARCH {op['key']}")
        elif k == "append":
            data = corpus.build("plain", op["tok"])
            r = await sess.command(
                f'APPEND {quote(box)} ({" ".join(op["flags"])}) "{fmt_internaldate(1650000000 + op["tok"])}" '.encode() + b"{%d+}\r\n" % len(data) + data, verb="APPEND")
            o["flags"] = [f.lower() if f.startswith("\\") else f for f in op["flags"]]
        elif k in ("copy", "move"):
            r = await sess.command(f"UID {k.upper()} {','.join(map(str, op['uids']))} {quote(op['dst'])}")
        elif k == "expunge":
            if op.get("restrict") is not None:
                r = await sess.command(f"UID EXPUNGE {','.join(map(str, op['restrict']))}")
            else:
                r = await sess.command("EXPUNGE")
        elif k == "close":
            r = await sess.command("CLOSE")
        elif k in ("noop", "check"):
            r = await sess.command(k.upper())
        else:
            raise ValueError(k)
        lat = self.loop.time() - t0
        self.C("c10_progress")
        self.ctx.sig(sess.sid, k, r.status)
        if r.status is None:
            if r.closed and (self.prog.get("knobs") or {}).get("sock_buf"):
                # behind a small socket buffer and a slow link a push of the server can take longer than its own 2 s
                # limit (IMAPClientProxy.push): it then drops that client, by design. What the client had in flight may
                # or may not have been executed - a fault of this configuration, nothing is demanded of this run.
                self.ctx.probe("client_dropped_by_push_timeout")
                self.client_dropped = True
            elif not sess.bye:
                self.V("C10", "starvation", session=sess.sid, cmd=r.line[:80], waited=round(lat, 1), closed=r.closed, waitfor=self.waitfor_picture())
            return None
        if lat >= PROMPT_BOUND or "Command timed out" in (r.text or ""):
            self.V("C10", "starvation", session=sess.sid, cmd=r.line[:80], latency=round(lat, 1), text=(r.text or "")[:60], waitfor=self.waitfor_picture())
        obs = o["obs"]
        if not r.ok:
            obs["refused"] = True
            return o
        if k in ("store", "fetch"):
            fl = {}
            for u in r.untagged:
                if u.kind == "FETCH":
                    try:
                        it = fetch_items(u)
                    except Exception:
                        continue
                    if "UID" in it and "FLAGS" in it and int(it["UID"]) in op["uids"]:
                        fl[int(it["UID"])] = norm_flags(it["FLAGS"])
            obs["flags"] = fl
        elif k == "search":
            uids = []
            for u in r.untagged:
                if u.kind == "SEARCH":
                    uids.extend(int(x) for x in (u.tokens or []) if isinstance(x, Atom) and x.isdigit())
            obs["uids"] = uids
        elif k == "append":
            c = code_of(r, "APPENDUID")
            if not c:
                return None
            obs["uid"] = int(c[1])
        elif k in ("copy", "move"):
            c = code_of(r, "COPYUID")
            try:
                obs["src"] = parse_uidset(c[1]) if c and len(c) > 2 and str(c[1]) else []
                obs["dst"] = parse_uidset(c[2]) if c and len(c) > 2 and str(c[2]) else []
            except Exception:
                obs["src"], obs["dst"] = [], []
        elif k == "expunge":
            # replay the untagged responses of the command over the view before it
            v = list(view_before)
            gone = []
            for u in r.untagged:
                if u.kind == "EXISTS" and u.num is not None and u.num > len(v):
                    v.extend([None] * (u.num - len(v)))
                elif u.kind == "EXPUNGE" and u.num and 1 <= u.num <= len(v):
                    gone.append(v[u.num - 1])
                    del v[u.num - 1]
            # only usable when every expunged cell was bound to a known UID
            obs["expunged"] = gone if all(x is not None for x in gone) else None
        return o


def _brief(o):
    return {k: v for k, v in o.items() if k in ("kind", "box", "uids", "how", "flags", "key", "dst", "obs", "restrict")}


# ---------------------------------------------------------------------------
def gen_burst(r, store, sids):
    boxes = [m["name"] for m in store["mailboxes"]]
    sizes = {m["name"]: len(m["msgs"]) for m in store["mailboxes"]}
    sel = {s: r.choice(boxes) for s in sids}
    # "conflict stress": everybody on one mailbox, wide overlapping sets (multi-message COPY/MOVE
    # read loops racing STOREs), so that the conflict relation is what keeps results serializable
    stress = r.random() < 0.35
    if stress:
        b0 = r.choice(boxes)
        sel = {s: b0 for s in sids}
    n = [0]

    def uids(box, k=None):
        size = sizes[box]
        if stress and r.random() < 0.6:
            lo = r.randint(1, max(size - 1, 1))
            return list(range(lo, min(size, lo + r.randint(1, 4)) + 1))
        k = k or r.randint(1, min(3, max(size, 1)))
        return sorted(set(r.randint(1, max(size, 1) + 1) for _ in range(k)))

    sessions = {}
    tok = 500
    if len(sids) >= 3 and r.random() < 0.15:
        # triad aimed at the conflict relation: a long-running command on a message outside the
        # range, a wide multi-message reader (COPY/MOVE/FETCH), and a STORE inside the range, all
        # on one mailbox within a few ms - results stay serializable only if the STORE is held back
        b0 = r.choice(boxes)
        size = max(sizes[b0], 3)
        other = [b for b in boxes if b != b0] or [b0]
        lo = r.randint(1, max(size - 2, 1))
        hi = min(size - 1, lo + r.randint(1, 4)) if size > 2 else lo
        rng_u = list(range(lo, hi + 1))
        outside = [u for u in range(1, size + 1) if u not in rng_u] or [size + 1]
        first = r.choice(("store", "fetch", "copy"))
        o1 = {"kind": first, "box": b0, "uids": [r.choice(outside)], "delay": 0.0, "n": 1}
        if first == "store":
            o1.update(how=r.choice("+-"), flags=[r.choice(FLAGS)])
        elif first == "copy":
            o1.update(dst=r.choice(other))
        o2 = {"kind": r.choice(("copy", "copy", "move", "fetch")), "box": b0, "uids": rng_u, "delay": r.choice((0.0, 0.0005, 0.002)), "n": 2}
        if o2["kind"] in ("copy", "move"):
            o2["dst"] = r.choice(other)
        k = r.randint(1, len(rng_u))
        o3 = {"kind": "store", "box": b0, "uids": sorted(r.sample(rng_u, k)), "how": r.choice("+-="), "flags": sorted(set(r.sample(FLAGS, r.randint(1, 2)))),
              "delay": r.choice((0.001, 0.005, 0.02, 0.05, 0.1, 0.3)), "n": 3}
        order = list(sids[:3])
        r.shuffle(order)
        burst = {"sessions": {order[0]: [o1], order[1]: [o2], order[2]: [o3]}}
        return burst, {s: b0 for s in sids}
    for s in sids:
        ops = []
        box = sel[s]
        for _ in range(r.randint(1, 4)):
            n[0] += 1
            x = r.random()
            d = r.choice((0.0, 0.0, 0.0005, 0.002, 0.01))
            if x < 0.28:
                ops.append({"kind": "store", "box": box, "uids": uids(box), "how": r.choice("+-="), "flags": sorted(set(r.sample(FLAGS, r.randint(1, 2)))), "delay": d, "n": n[0]})
            elif x < 0.38:
                ops.append({"kind": "fetch", "box": box, "uids": uids(box), "delay": d, "n": n[0]})
            elif x < 0.48:
                ops.append({"kind": "search", "box": box, "key": r.choice(KEYS), "delay": d, "n": n[0]})
            elif x < 0.58:
                tok += 1
                ops.append({"kind": "append", "box": r.choice(boxes), "tok": tok, "flags": sorted(set(r.sample(FLAGS, r.randint(0, 2)))), "delay": d, "n": n[0]})
            elif x < 0.75:
                other = [b for b in boxes if b != box]
                dst = r.choice(other) if other and r.random() < 0.8 else box
                ops.append({"kind": r.choice(("copy", "move")), "box": box, "uids": uids(box), "dst": dst, "delay": d, "n": n[0]})
            elif x < 0.88:
                op = {"kind": "expunge", "box": box, "delay": d, "n": n[0]}
                if r.random() < 0.3:
                    op["restrict"] = uids(box)
                ops.append(op)
            elif x < 0.94:
                ops.append({"kind": r.choice(("noop", "check")), "box": box, "delay": d, "n": n[0]})
            else:
                ops.append({"kind": "close", "box": box, "delay": d, "n": n[0]})
                break
        sessions[s] = ops
    burst = {"sessions": sessions}
    if "inbox" in boxes and r.random() < 0.2:
        burst["pop"] = {"dele": sorted(set(r.randint(1, max(sizes["inbox"], 1)) for _ in range(r.randint(1, 2))))}
    return burst, sel


def generate(seed, tier, index, kf):
    r = random.Random(seed)
    sids = ["sa", "sb", "sc"][: r.randint(2, 3)]
    if r.random() < 0.25:
        # long random concurrent workload, progress oracle only
        prof = {
            "mailboxes": ["inbox", "work"], "sessions": len(sids), "init_hi": 6, "ops_lo": 20, "ops_hi": 50, "mode": "concurrent", "quiet_p": 0.1, "stall_p": 0.3,
            "weights": {"select": 2, "append": 2, "store": 3, "delete_flag": 3, "fetch": 2, "search": 1, "expunge": 3, "copy": 3, "move": 3, "noop": 2, "close": 1,
                        "deliver": 1, "create": 0.7, "delete": 0.7, "rename": 0.7, "idle": 0.5, "status": 0.5},
            "name_alphabet": ["work", "inbox", "x", "y"],
        }
        base = mailstore.generate(seed, prof)
        for op in base["ops"]:
            op["when"] = {"delay": r.choice((0.0, 0.0, 0.001, 0.01, 0.1))}
        base.update({"family": "random", "burst_ops": base["ops"], "ops": [], "props": [PROP], "compare": False})
        return base
    if r.random() < 0.08:
        # "churn": slow readers on one mailbox that keeps getting mail and losing messages while sessions
        # come and go (SELECT / UNSELECT / CLOSE / LOGOUT+reconnect): every notification loop over the
        # mailbox's clients is suspended in a drain() while the set of clients changes. Progress oracle.
        sids = ["sa", "sb", "sc"]
        prof = {"mailboxes": ["inbox"], "sessions": 3, "init_lo": 2, "init_hi": 5, "ops_lo": 1, "ops_hi": 1, "mode": "concurrent", "quiet_p": 0.0, "weights": {"noop": 1}}
        base = mailstore.generate(seed, prof)
        ops = [{"s": s_, "op": "select", "mbox": "inbox", "examine": False} for s_ in sids]
        for _k in range(r.randint(15, 40)):
            x = r.random()
            s_ = r.choice(sids)
            if x < 0.2:
                ops.append({"actor": "agent", "op": "deliver", "mbox": "inbox", "count": 1, "unseen": True, "advance": r.random() < 0.7})
            elif x < 0.4:
                ops.append({"s": s_, "op": "noop"})
            elif x < 0.5:
                ops.append({"s": s_, "op": "store", "uid": False, "set": {"raw": "*"}, "how": "+", "flags": ["\\Deleted"], "silent": False})
            elif x < 0.6:
                ops.append({"s": s_, "op": "expunge"})
            elif x < 0.75:
                ops.append({"s": s_, "op": r.choice(("unselect", "close"))})
            elif x < 0.92:
                ops.append({"s": s_, "op": "select", "mbox": "inbox", "examine": r.random() < 0.2})
            else:
                ops.append({"s": s_, "op": "idle"})
                ops.append({"s": s_, "op": "done"})
        for op in ops:
            op["when"] = {"delay": r.choice((0.0, 0.0, 0.01, 0.05, 0.2, 0.5))}
        base["latency"] = {"exec": r.choice(("zero", "small")), "db": r.choice(("zero", "small")), "net": r.choice(("bimodal", "slow", "wide"))}
        base["knobs"] = {"sock_buf": r.choice((64, 128, 512))}
        base.update({"family": "churn", "burst_ops": ops, "ops": [], "props": [PROP], "compare": False, "sessions": [{"id": s_, "proto": "imap"} for s_ in sids]})
        return base
    if r.random() < 0.08:
        # "delete-race": a mailbox with many messages and a child is DELETEd (it becomes a \Noselect placeholder; the
        # DELETE yields once per message it removes) while other sessions have commands queued on it - COPY / MOVE /
        # APPEND into it, or STORE / SEARCH / EXPUNGE / FETCH from a session that has it selected. Every command gets
        # the answer of one of the two orders, never "BAD Unhandled exception".
        sids = ["sa", "sb", "sc"]
        prof = {"mailboxes": ["inbox", "par"], "sessions": 3, "init_lo": 3, "init_hi": 5, "ops_lo": 1, "ops_hi": 1, "mode": "concurrent", "quiet_p": 0.0, "weights": {"noop": 1}}
        base = mailstore.generate(seed, prof)
        for mb in base["store"]["mailboxes"]:
            if mb["name"] == "par":
                k0 = (mb["msgs"][-1]["key"] + 1) if mb["msgs"] else 1
                for j in range(r.randint(15, 40)):
                    mb["msgs"].append({"tok": 500 + j, "key": k0 + j, "flags": [], "date": 1_690_000_000 + j, "shape": "plain"})
        ops = [
            {"s": "sa", "op": "create", "name": "par/kid", "when": {"delay": 0.0}},
            {"s": "sa", "op": "select", "mbox": "inbox", "examine": False, "when": {"delay": 0.0}},
            {"s": "sc", "op": "select", "mbox": "par", "examine": False, "when": {"delay": 0.0}},
            {"s": "sb", "op": "delete", "name": "par", "when": {"delay": r.choice((0.0, 0.01, 0.05))}},
        ]
        for _k in range(r.randint(1, 3)):
            x = r.random()
            d = {"delay": r.choice((0.0, 0.0, 0.001, 0.005, 0.02, 0.1))}
            if x < 0.3:
                ops.append({"s": "sa", "op": r.choice(("copy", "move")), "uid": r.random() < 0.5, "set": {"pos": [1]}, "dst": "par", "when": d})
            elif x < 0.5:
                ops.append({"s": "sa", "op": "append", "mbox": "par", "tok": 700 + _k, "flags": [], "date": 1_650_000_000 + _k, "shape": "plain", "when": d})
            elif x < 0.65:
                ops.append({"s": "sc", "op": "store", "uid": True, "set": {"all": True}, "how": "+", "flags": ["\\Seen"], "silent": False, "when": d})
            elif x < 0.8:
                ops.append({"s": "sc", "op": r.choice(("expunge", "noop")), "when": d})
            elif x < 0.9:
                ops.append({"s": "sc", "op": "search", "uid": False, "key": "ALL", "when": d})
            else:
                ops.append({"s": "sc", "op": "fetch", "uid": False, "set": {"pos": [1]}, "items": "(FLAGS)", "when": d})
        base["latency"] = {"exec": r.choice(("small", "bimodal")), "db": r.choice(("zero", "small")), "net": r.choice(("zero", "small"))}
        base.update({"family": "delete-race", "burst_ops": ops, "ops": [], "props": [PROP], "compare": False, "sessions": [{"id": s_, "proto": "imap"} for s_ in sids]})
        return base
    if r.random() < 0.06:
        # "rename-race": a mailbox is RENAMEd away while another session is just activating it (SELECT/STATUS of a
        # mailbox that is not in memory yet), and then further commands name it. Whatever the first ones answer, the
        # later ones are answered (progress oracle: no command is left to the watchdog).
        sids = ["sa", "sb", "sc"]
        prof = {"mailboxes": ["inbox", "work"], "sessions": 3, "init_lo": 1, "init_hi": 3, "ops_lo": 1, "ops_hi": 1, "mode": "concurrent", "quiet_p": 0.0, "weights": {"noop": 1}}
        base = mailstore.generate(seed, prof)
        d0 = r.choice((0.0, 0.001, 0.003, 0.01, 0.03))
        ops = [
            {"s": "sb", "op": "rename", "name": "work", "to": r.choice(("w2", "x/w")), "when": {"delay": r.choice((0.0, 0.001, 0.005, 0.02))}},
            {"s": "sa", "op": r.choice(("select", "select", "status")), "mbox": "work", "examine": False, "when": {"delay": d0}},
        ]
        for _k in range(r.randint(2, 4)):
            x = r.random()
            d = {"delay": r.choice((0.05, 0.2, 0.5, 1.0))}
            if x < 0.4:
                ops.append({"s": "sc", "op": "create", "name": r.choice(("work/y", "work")), "when": d})
            elif x < 0.7:
                ops.append({"s": r.choice(("sa", "sc")), "op": "status", "mbox": "work", "when": d})
            else:
                ops.append({"s": r.choice(("sa", "sc")), "op": "select", "mbox": "work", "examine": False, "when": d})
        base["latency"] = {"exec": r.choice(("small", "bimodal")), "db": r.choice(("zero", "small")), "net": r.choice(("zero", "small"))}
        base.update({"family": "rename-race", "burst_ops": ops, "ops": [], "props": [PROP], "compare": False, "sessions": [{"id": s_, "proto": "imap"} for s_ in sids]})
        return base
    store, tok = mailstore.initial_store(r, ["inbox", "work"], 3, 8, kw=["kw1"])
    burst, sel = gen_burst(r, store, sids)
    prologue = [{"s": s, "op": "select", "mbox": sel[s], "examine": False} for s in sids]
    prog = {
        "format": 1, "seed": seed, "world": "A", "mode": "sequential", "latency": mailstore.swarm_latency(r, 0.1), "knobs": {}, "buggify": {}, "store": store,
        "sessions": [{"id": s, "proto": "imap"} for s in sids], "ops": prologue, "burst": burst, "boxes": ["inbox", "work"], "props": [PROP], "family": "burst",
    }
    if r.random() < 0.3:
        prog["buggify"]["gc_every"] = r.choice((20, 200))
    if r.random() < 0.15:
        prog["buggify"]["cpu_p"] = r.choice((0.05, 0.3))  # computation takes time: the "yield after 50 ms" points fire
        prog["buggify"]["cpu_max"] = r.choice((0.02, 0.08, 0.3))
    if r.random() < 0.12:
        prog["knobs"]["sock_buf"] = r.choice((128, 512, 2048))  # slow reader: the server's drain() waits between responses
    if r.random() < 0.3:
        prog["buggify"]["stall_p"] = 0.003
        prog["buggify"]["stall_max"] = r.choice((0.02, 0.3))
    return prog


def execute(program, opts):
    return worlda.execute(program, opts, interp_cls=BurstInterp)


def simplifications(program):
    out = worlda.simplifications(program)
    b = program.get("burst")
    if b:
        # drop one burst op at a time / the POP3 actor
        for sid, ops in b["sessions"].items():
            for i in range(len(ops)):
                nb = dict(b, sessions=dict(b["sessions"], **{sid: ops[:i] + ops[i + 1:]}))
                out.append(dict(program, burst=nb))
        if b.get("pop"):
            out.append(dict(program, burst={k: v for k, v in b.items() if k != "pop"}))
    return out
