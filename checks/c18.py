"""C18 - no access without the right password; brute-force throttling holds."""

import asyncio
import os
import random

from harness import worlda
from harness.driver import KnownFindings
from harness.runctx import RunCtx
from sim.loop import SimQuiescent, StepLimit
from sim.seams import CONN, FS, OWNER
from sim.worldb import FrontEnd, RawImapSession, RawPop3Session

PROP = "C18"
CONFIG = worlda.base_config(
    rule="World B: the real front-end (IMAPServer/IMAPClient/PreAuthenticated/POP3 front-end/throttle/auth, password file with iteration-1 PBKDF2 hashes incl. "
    "a disabled '!' hash and a user without mail directory) under a virtual clock. 2-4 client addresses x 2-4 user names issue timed sequences of LOGIN and "
    "USER/PASS attempts (right, wrong, empty password, and - in 35% of the runs, where an administrator task rewrites the password file at seeded times, "
    "also moving a file with an older mtime into place - the previous and the current password; gaps from {0,1,30,59,61,119,121 s} +- jitter, several connections concurrently) and, before "
    "authenticating, every post-authentication verb. Oracles: (gate) before a successful login no user process is launched, no relay connection opened, no "
    "path under any mail root touched by front-end tasks, every such command refused, wrong/empty/disabled passwords never authenticate; (throttle) a "
    "reference automaton written from the statement (count restarts after >60 s without failure; locked iff user count > 4 or address count > 5 within "
    "60 s of the last recorded failure) is compared with the allow/refuse decision of every attempt at the instant the front-end takes it, and with the "
    "client-visible outcome, including correct-password attempts. non-trivial = >=6 attempts incl. a lock-out; distinct = attempt-sequence signatures",
    level_text="reference-automaton comparison of every authentication decision of the real front-end under seeded timed, concurrent attempt sequences "
    "(virtual time: 1 h of attempts costs milliseconds); exploration.",
)
CONFIG["real"] = ["asimap.server (IMAPServer.new_client, IMAPClient, IMAPSubprocessInterface)", "asimap.pop3_server", "asimap.client.PreAuthenticated",
                  "asimap.throttle", "asimap.auth", "asimap.hashers (PBKDF2 with 1 iteration)", "asimap.parse", "per-user node as in World A"]
CONFIG["stub"] = worlda.STUB + ["IMAPSubprocess.start (in-process node instead of fork/exec)", "TLS"]
GAPS = [0.0, 0.0, 0.3, 1.0, 5.0, 30.0, 59.0, 61.0, 65.0, 119.0, 121.0]
PREAUTH = ["SELECT inbox", "EXAMINE inbox", "LIST \"\" *", "LSUB \"\" *", "STATUS inbox (MESSAGES)", "CREATE x", "DELETE inbox", "RENAME inbox y", "FETCH 1 BODY[]",
           "UID FETCH 1:* FLAGS", "STORE 1 +FLAGS (\\Deleted)", "EXPUNGE", "COPY 1 inbox", "SEARCH ALL", "APPEND inbox {3+}\r\nabc", "IDLE", "CHECK", "CLOSE",
           "SUBSCRIBE inbox", "MOVE 1 inbox", "NAMESPACE"]
USERS = {
    "alice": {"password": "alicepw"}, "bob": {"password": "bobpw"}, "carol": {"password": 'ca"rol\\pw'},
    "dis": {"hash": "!disabledhashdisabledhashdisabledhashdisab"}, "nodir": {"password": "nodirpw", "maildir": False},
}


class Automaton:
    """Throttle reference, written from the statement (thresholds and interval are
    constants here).  Counts are kept as *sets of possible values*: when a failure
    falls within EPS of exactly 60 s after the previous one - an attempt that
    straddles the boundary between the front-end's check and its record - the
    statement does not say whether the chain continues, so both are kept and any
    decision that depends on the difference is a don't-care."""

    USER_MAX = 4
    ADDR_MAX = 5
    WINDOW = 60.0
    EPS = 0.3

    def __init__(self):
        self.users = {}
        self.addrs = {}

    def _fail(self, tab, key, now):
        counts, last = tab.get(key, (None, None))
        if last is None:
            tab[key] = ({1}, now)
            return
        gap = now - last
        if gap < self.WINDOW - self.EPS:
            tab[key] = ({c + 1 for c in counts}, now)
        elif gap > self.WINDOW + self.EPS:
            tab[key] = ({1}, now)
        else:
            tab[key] = ({c + 1 for c in counts} | {1}, now)

    def failed(self, user, addr, now):
        self._fail(self.users, user, now)
        self._fail(self.addrs, addr, now)

    def locked(self, user, addr, now):
        """-> True / False / None (don't care)"""
        verdicts = []
        for tab, key, mx in ((self.users, user, self.USER_MAX), (self.addrs, addr, self.ADDR_MAX)):
            counts, last = tab.get(key, (None, None))
            if last is None:
                verdicts.append(False)
                continue
            age = now - last
            over = {c > mx for c in counts}
            if over == {False} or age > self.WINDOW + self.EPS:
                verdicts.append(False)
            elif over == {True} and age < self.WINDOW - self.EPS:
                verdicts.append(True)
            else:
                verdicts.append(None)
        if True in verdicts:
            return True
        if None in verdicts:
            return None
        return False


def execute(program, opts):
    ctx = RunCtx(program, opts)
    world = ctx.world
    env = ctx.env
    loop = env.loop
    world.known = KnownFindings()
    import asimap.client as client
    import asimap.pop3_server as p3

    fe = FrontEnd(world, ctx.jail, {u: USERS[u] for u in program["users"]})
    auto = Automaton()
    decisions = []  # server-side throttle decisions in order
    V = world.violate
    C = world.count
    real_check = client.check_allow
    real_failed = client.login_failed

    def check(user, addr):
        now = env.vnow()
        exp = auto.locked(user, addr, now)
        res = real_check(user, addr)
        decisions.append((now, user, addr, res, CONN.get()))
        C("c18_throttle_decision")
        if exp is not None and res == exp:
            # res True means "allow"; exp True means "locked"
            V(PROP, "locked_attempt_allowed" if exp else "unlocked_attempt_refused", user=user, addr=addr, t=round(now, 3),
              user_state=str(auto.users.get(user)), addr_state=str(auto.addrs.get(addr)))
        if exp is True:
            ctx.probe("lockout_reached")
        return res

    fail_calls = []

    def failed(user, addr):
        auto.failed(user, addr, env.vnow())
        fail_calls.append((env.vnow(), user, addr, CONN.get()))
        return real_failed(user, addr)

    client.check_allow = check
    client.login_failed = failed
    p3.check_allow = check
    p3.login_failed = failed
    # gate: paths under any mail root touched by front-end tasks
    touches = []

    def rec(event, p):
        if OWNER.get() == "frontend" and "/Mail" in p and p.startswith(ctx.jail):
            touches.append((event, p.replace(ctx.root, "<RUN>"), CONN.get()))

    authed = set()  # connection ids that have authenticated
    results = []
    # passwords change while the server runs: the administrator rewrites the password file
    pwnow = {u: USERS[u].get("password") for u in program["users"]}
    changes = []  # (virtual time, user)

    def pw_right(user, pw):
        return pwnow.get(user) is not None and pw == pwnow[user]

    async def admin():
        import asimap.hashers as hashers

        path = os.path.join(ctx.jail, "passwords.txt")
        t_prev = 0.0
        for ch in sorted(program.get("chpass", []), key=lambda c: c["t"]):
            await asyncio.sleep(max(0.0, ch["t"] - t_prev))
            t_prev = ch["t"]
            if ch["user"] not in pwnow or pwnow[ch["user"]] is None:
                continue
            st0 = os.stat(path)
            pwnow[ch["user"]] = ch["pw"]
            fe.users[ch["user"]] = dict(fe.users[ch["user"]], password=ch["pw"])
            tmp = path + ".new"
            with open(tmp, "w") as f:
                for name, u in fe.users.items():
                    h = u["hash"] if u.get("hash") is not None else hashers.make_password(u["password"])
                    f.write(f"{name}:{h}:{fe.maildir(name)}\n")
            if ch.get("mtime") == "older":
                # a file prepared earlier (or restored from a backup) and moved into place keeps its older mtime
                os.utime(tmp, (st0.st_mtime - 3600.0, st0.st_mtime - 3600.0))
            os.replace(tmp, path)
            changes.append((env.vnow(), ch["user"]))
            env.fired("password_changed")
            ctx.probe("password_changed_" + ch.get("mtime", "now"))

    async def imap_conn(cid, conn):
        s = RawImapSession(world, cid, conn["addr"])
        world.net.connect(fe.imap_port, s, addr=conn["addr"])
        me = world.net.conn_no
        await s.wait_greeting()
        ok_login = False
        for step in conn["steps"]:
            await asyncio.sleep(step.get("gap", 0.0))
            if s.lost:
                break
            if step["op"] == "pre":
                n_l, n_r, n_t = len(fe.launches), len(fe.relays), len(touches)
                r = await s.command(step["line"], timeout=150.0 if ok_login else 60.0)
                if ok_login:
                    continue
                C("c18_preauth_command")
                if r.status == "OK" and (r.verb or "").upper() not in ("NAMESPACE",):
                    V(PROP, "preauth_access", conn=cid, cmd=step["line"][:40], reply=r.brief())
                mine = [x for x in fe.launches[n_l:] + fe.relays[n_r:] + touches[n_t:] if x[-1] == me]
                if mine:
                    V(PROP, "preauth_access", conn=cid, cmd=step["line"][:40], events=mine[:5])
            elif step["op"] == "login":
                user, pw = step["user"], step["pw"]
                if pw == "@current":
                    pw = pwnow.get(user) or "nopw"
                elif pw == "@previous":
                    pw = USERS.get(user, {}).get("password") or "nopw"
                right = pw_right(user, pw)
                n_chg = len(changes)
                n_dec = len(decisions)
                n_fail = len(fail_calls)
                qpw = pw.replace("\\", "\\\\").replace('"', '\\"')  # as a quoted string
                r = await s.command(f'LOGIN {user} "{qpw}"' if pw != "" else f'LOGIN {user} ""', timeout=90.0)
                C("c18_login_attempt")
                ctx.sig(cid, "login", user, right, r.status)
                if r.status is None:
                    results.append((cid, user, "none"))
                    continue
                if any(c[1] == user for c in changes[n_chg:]):
                    if r.ok:
                        ok_login = True
                    continue  # the password changed while the attempt was in flight: either answer is right
                dec = [d for d in decisions[n_dec:] if d[4] == me] or None
                if ok_login:
                    continue  # already authenticated: forwarded to the user process
                if not dec:
                    if not r.ok:
                        # refused before the throttle was even asked (e.g. parse error): fine
                        continue
                    V(PROP, "login_bypassed_throttle", conn=cid, user=user)
                allowed = dec[0][3] if dec else True
                if r.ok:
                    if not right:
                        V(PROP, "bad_password_accepted", conn=cid, user=user, pw=pw)
                    if not allowed:
                        V(PROP, "locked_attempt_allowed", conn=cid, user=user, why="throttle said no but LOGIN succeeded")
                    if USERS.get(user, {}).get("maildir", True) is False:
                        V(PROP, "bad_password_accepted", conn=cid, user=user, why="user without mail directory logged in")
                    ok_login = True
                    authed.add(cid)
                    ctx.probe("login_ok")
                else:
                    if right and allowed and USERS[user].get("maildir", True):
                        V(PROP, "unlocked_attempt_refused", conn=cid, user=user, reply=r.brief(), why="correct password, throttle allowed, LOGIN refused")
                    if not right and allowed and dec:
                        # a failed attempt has to be recorded against the user and the address
                        C("c18_failure_recorded")
                        if not [f for f in fail_calls[n_fail:] if f[3] == me and f[1] == user]:
                            V(PROP, "failure_not_recorded", conn=cid, user=user, proto="imap")
            elif step["op"] == "post" and ok_login:
                r = await s.command(step["line"], timeout=150.0)
                C("c18_postauth_command")
        s.close()

    async def pop_conn(cid, conn):
        p = RawPop3Session(world, cid, conn["addr"])
        world.net.connect(fe.pop_port, p, addr=conn["addr"])
        me = world.net.conn_no
        await p.line()
        ok_login = False
        for step in conn["steps"]:
            await asyncio.sleep(step.get("gap", 0.0))
            if p.lost:
                break
            if step["op"] == "pre":
                n_l, n_r, n_t = len(fe.launches), len(fe.relays), len(touches)
                ln = await p.cmd(step["line"])
                if ok_login:
                    continue
                C("c18_preauth_command")
                if ln is not None and ln.startswith(b"+OK") and step["line"].split()[0].upper() not in ("CAPA", "USER", "QUIT", "NOOP"):
                    V(PROP, "preauth_access", conn=cid, cmd=step["line"][:40], reply=ln[:60])
                mine = [x for x in fe.launches[n_l:] + fe.relays[n_r:] + touches[n_t:] if x[-1] == me]
                if mine:
                    V(PROP, "preauth_access", conn=cid, cmd=step["line"][:40], events=mine[:5])
            elif step["op"] == "login":
                if ok_login:
                    continue
                user, pw = step["user"], step["pw"]
                if pw == "@current":
                    pw = pwnow.get(user) or "nopw"
                elif pw == "@previous":
                    pw = USERS.get(user, {}).get("password") or "nopw"
                right = pw_right(user, pw)
                await p.cmd(f"USER {user}")
                n_chg = len(changes)
                n_dec = len(decisions)
                n_fail = len(fail_calls)
                ln = await p.cmd(f"PASS {pw}")
                C("c18_login_attempt")
                ctx.sig(cid, "pass", user, right, None if ln is None else ln[:3])
                if ln is None:
                    continue
                if any(c[1] == user for c in changes[n_chg:]):
                    if ln.startswith(b"+OK"):
                        ok_login = True
                    continue
                dec = [d for d in decisions[n_dec:] if d[4] == me]
                allowed = dec[0][3] if dec else True
                if ln.startswith(b"+OK"):
                    if not right:
                        V(PROP, "bad_password_accepted", conn=cid, user=user, pw=pw, proto="pop3")
                    if not allowed:
                        V(PROP, "locked_attempt_allowed", conn=cid, user=user, proto="pop3")
                    if not dec:
                        V(PROP, "login_bypassed_throttle", conn=cid, user=user, proto="pop3")
                    ok_login = True
                    ctx.probe("login_ok")
                elif right and allowed and dec and USERS[user].get("maildir", True):
                    V(PROP, "unlocked_attempt_refused", conn=cid, user=user, reply=ln[:60], proto="pop3")
                elif not right and allowed and dec:
                    C("c18_failure_recorded")
                    if not [f for f in fail_calls[n_fail:] if f[3] == me and f[1] == user]:
                        V(PROP, "failure_not_recorded", conn=cid, user=user, proto="pop3")
        p.close()

    async def main():
        await fe.start()
        FS.access = rec
        tasks = []
        if program.get("chpass"):
            tasks.append(loop.create_task(admin(), name="admin"))
        for i, conn in enumerate(program["conns"]):
            cid = f"c{i}"
            coro = imap_conn(cid, conn) if conn["proto"] == "imap" else pop_conn(cid, conn)

            async def delayed(c=coro, d=conn.get("start", 0.0)):
                await asyncio.sleep(d)
                await c

            tasks.append(loop.create_task(delayed(), name=f"conn-{cid}"))
        done, pend = await asyncio.wait(tasks, timeout=7200.0)
        for t in pend:
            t.cancel()
        for t in done:
            if t.exception() is not None:
                raise t.exception()
        ctx.nontrivial = len(decisions) >= 4

    extra = {}
    try:
        loop.run_until_complete(loop.create_task(main(), name="c18-main"))
    except SimQuiescent:
        extra["harness_error"] = "quiescent"
    except StepLimit:
        extra["harness_error"] = "step cap"
    extra["sample"] = {"seed": program.get("seed"), "users": program["users"], "conns": program["conns"][:3], "decisions": [(round(d[0], 2), d[1], d[2], d[3]) for d in decisions[:25]]}
    res = ctx.result(extra)
    ctx.cleanup()
    return res


def generate(seed, tier, index, kf):
    r = random.Random(seed)
    users = ["alice", "bob"] + r.sample(["carol", "dis", "nodir"], r.randint(0, 2))
    names = users + ["ghost"]
    addrs = [f"10.1.0.{i}" for i in range(1, r.randint(2, 4) + 1)]
    conns = []
    hammer_user = r.choice(users)
    hammer_addr = r.choice(addrs)
    for c in range(r.randint(2, 7)):
        proto = "imap" if r.random() < 0.7 else "pop3"
        addr = r.choice(addrs) if r.random() < 0.6 else hammer_addr
        steps = []
        for _ in range(r.randint(2, 10)):
            x = r.random()
            gap = r.choice(GAPS) + r.random() * 0.2
            if x < 0.2:
                steps.append({"op": "pre", "gap": gap, "line": r.choice(PREAUTH) if proto == "imap" else r.choice(("STAT", "LIST", "RETR 1", "DELE 1", "UIDL", "TOP 1 1", "RSET"))})
            elif x < 0.95:
                user = hammer_user if r.random() < 0.6 else r.choice(names)
                right_pw = USERS.get(user, {}).get("password")
                y = r.random()
                if y < 0.25 and right_pw:
                    pw = right_pw
                elif y < 0.35:
                    pw = ""
                else:
                    pw = r.choice(("wrong", "alicepw", "bobpw", "x" * 40, "pass word"))
                    if pw == right_pw:
                        pw = "wrong2"
                if proto == "pop3" and pw == "":
                    pw = "wrong3"
                steps.append({"op": "login", "gap": gap, "user": user, "pw": pw})
            else:
                steps.append({"op": "post", "gap": gap, "line": r.choice(("SELECT inbox", "LIST \"\" *", "NOOP"))})
        conns.append({"proto": proto, "addr": addr, "start": r.choice((0.0, 0.0, 0.1, 5.0, 40.0)), "steps": steps})
    chpass = []
    if r.random() < 0.35:
        # the administrator changes a password while the server runs; later attempts use the old and the new one
        for _ in range(r.randint(1, 2)):
            u = r.choice([x for x in users if USERS[x].get("password")])
            chpass.append({"t": r.choice((3.0, 20.0, 70.0, 130.0)), "user": u, "pw": f"{u}new{len(chpass)}", "mtime": r.choice(("now", "now", "older"))})
        for c in conns:
            for st in c["steps"]:
                if st["op"] == "login" and r.random() < 0.5:
                    st["user"] = r.choice(chpass)["user"]
                    st["pw"] = r.choice(("@current", "@previous", "@previous"))
    return {"format": 1, "seed": seed, "world": "B", "users": users, "conns": conns, "chpass": chpass, "latency": {"exec": r.choice(("zero", "small", "bimodal")), "db": "zero", "net": r.choice(("zero", "small", "bimodal"))},
            "ops": [], "props": [PROP]}


def simplifications(program):
    out = []
    for i in range(len(program["conns"])):
        out.append(dict(program, conns=program["conns"][:i] + program["conns"][i + 1:]))
    for i, c in enumerate(program["conns"]):
        for j in range(len(c["steps"])):
            nc = dict(c, steps=c["steps"][:j] + c["steps"][j + 1:])
            out.append(dict(program, conns=program["conns"][:i] + [nc] + program["conns"][i + 1:]))
    return out
