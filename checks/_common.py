"""Boilerplate shared by the interpreter-based check modules."""

import random

from gen import mailstore
from harness import worlda


def make(prop, profile_fn, config, post=None):
    def generate(seed, tier, index, kf):
        r = random.Random(seed)
        prof = profile_fn(r, tier, index)
        prog = mailstore.generate(seed, prof)
        prog["props"] = [prop]
        for k in ("compare", "liveness", "virtual_budget", "step_cap", "tag_stores", "uidexpunge_only", "probe_p", "seen_oracle"):
            if k in prof:
                prog[k] = prof[k]
        if post is not None:
            prog = post(prog, r, tier, prof) or prog
        return prog

    return generate, worlda.execute, worlda.simplifications


def inject_stealth(prog, r, p=0.2):
    """MH deliveries that do NOT wait for the folder's mtime second to advance, placed right
    after a command that made the server write to that folder: the server has recorded that
    very second, so the message stays unnoticed (legitimately - one-second mtimes) until
    something else touches the folder. What must still hold then: it is never half visible,
    and whatever arrives next (COPY, APPEND, delivery) gets and reports its own UIDs."""
    out = []
    for op in prog["ops"]:
        out.append(op)
        if op.get("op") in ("append", "copy", "move") and r.random() < p:
            mbox = op.get("mbox") or op.get("dst")
            if mbox:
                out.append({"actor": "agent", "op": "deliver", "mbox": mbox, "count": 1, "unseen": r.random() < 0.7, "advance": False})
    prog["ops"] = out
    return prog
