"""Boilerplate shared by the interpreter-based check modules."""

import random

from gen import mailstore
from harness import worlda


def make(prop, profile_fn, config, post=None):
    def generate(seed, tier, index, kf):
        r = random.Random(seed)
        prof = profile_fn(r, tier, index)
        prog = mailstore.generate(seed, prof)
        prog["props"] = [prop]
        for k in ("compare", "liveness", "virtual_budget", "step_cap", "tag_stores", "uidexpunge_only"):
            if k in prof:
                prog[k] = prof[k]
        if post is not None:
            prog = post(prog, r, tier, prof) or prog
        return prog

    return generate, worlda.execute, worlda.simplifications
