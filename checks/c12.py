"""C12 - an orderly restart changes nothing a client can see."""

from checks import _common
from harness import worlda

PROP = "C12"
CONFIG = worlda.base_config(
    rule="seeded histories reaching sparse UID sets after expunges, packed/unpacked folders, keyword flags, \\Noselect placeholders, renamed trees, empty "
    "mailboxes, with an orderly restart (cancel-style shutdown, or true idle expiry: all sessions log out and the virtual clock runs >1800 s) inserted at "
    "seeded positions - in the thorough tier after every op - sometimes with an external delivery while the server is down. The observer's "
    "LIST, LSUB, and per mailbox SELECT codes, STATUS and UID FETCH 1:* (FLAGS) before shutdown are compared with those after relaunch. "
    "In 40% of the programs the shutdown arrives while a command (EXPUNGE, CLOSE, MOVE, COPY, STORE, APPEND, DELETE, RENAME, CREATE) is in flight, at "
    "its k-th storage event: afterwards every listed mailbox selects, surviving messages keep their UIDs under an unchanged UIDVALIDITY, no UID names "
    "another message, and a second restart changes nothing. non-trivial = a restart happened after >=1 mutation; distinct = op signatures",
    level_text="before/after observer transcripts around real shutdown() and real start-up scan of the per-user server on the same directory and database, over "
    "seeded histories; exploration.",
    expected_probes=["idle_expiry_exit", "shutdown_with_command_in_flight"],
    wall=90,
)

W = {
    "select": 2, "append": 3, "store": 3, "delete_flag": 3, "fetch": 1, "expunge": 3, "copy": 2, "move": 2, "noop": 1, "deliver": 2, "wait": 1,
    "close": 1, "create": 2, "delete": 1.5, "rename": 1.5, "subscribe": 2, "unsubscribe": 0.5, "restart": 2.5,
}


def profile(r, tier, index):
    return {
        "mailboxes": ["inbox", "work", "a/b"][: r.randint(2, 3)], "sessions": r.randint(1, 2), "weights": W, "init_hi": 6, "sparse": r.random() < 0.5,
        "ops_lo": 8, "ops_hi": 30 if tier == "thorough" else 22, "mode": "sequential", "pack_knob": True, "pack_p": 0.5, "folder_scan_p": 0.3,
        "name_alphabet": ["a", "b", "new", "x.y", "a b", "Drafts"],
    }


def post(prog, r, tier, prof):
    ops = prog["ops"]
    if tier == "thorough" and r.random() < 0.3:
        # restart after every op of a (shorter) history
        out = []
        for op in ops[:12]:
            out.append(op)
            if op.get("op") != "restart":
                out.append({"actor": "life", "op": "restart", "kind": r.choice(("cancel", "expire"))})
        ops = out
    for op in ops:
        if op.get("op") == "restart" and r.random() < 0.3:
            op["while_down"] = [{"actor": "agent", "op": "deliver", "mbox": r.choice(prof["mailboxes"]), "count": r.choice((1, 2)), "unseen": r.random() < 0.7}]
    if r.random() < 0.4:
        # the shutdown arrives while a command is in flight: the op in front of a restart becomes its victim
        INFLIGHT = ("expunge", "close", "move", "copy", "store", "append", "delete", "rename", "create")
        out = []
        for op in ops:
            if op.get("op") == "restart" and out and out[-1].get("s") and out[-1].get("op") in INFLIGHT and "while_down" not in op and r.random() < 0.7:
                victim = out.pop()
                op["inflight"] = victim
                op["at_event"] = r.choice((1, 1, 2, 2, 3, 4, 5, 6, 8, 10, 14, 20))
                op["kind"] = "cancel"
                op["drop_after"] = r.choice((0.0, 0.0, 0.001, 0.01, 0.05, 0.3))
            out.append(op)
        ops = out
        if not any(op.get("inflight") for op in ops):
            # make one: EXPUNGE of flagged messages cut short
            s0 = prog["sessions"][0]["id"] if prog.get("sessions") else None
            if s0 is not None:
                ops.append({"s": s0, "op": "select", "mbox": prof["mailboxes"][0], "examine": False})
                ops.append({"s": s0, "op": "store", "uid": False, "set": {"all": True}, "how": "+", "flags": ["\\Deleted"], "silent": True})
                ops.append({"actor": "life", "op": "restart", "kind": "cancel", "at_event": r.choice((1, 2, 3, 4, 6, 9)), "drop_after": r.choice((0.0, 0.001, 0.02)), "inflight": {"s": s0, "op": "expunge"}})
    if r.random() < 0.12 and prog.get("sessions"):
        # a SPECIAL-USE name that is deleted and then taken again (CREATE, or RENAME of another mailbox): what LIST says
        # about it must not depend on how many restarts lie behind
        s0 = prog["sessions"][0]["id"]
        su = r.choice(("Drafts", "Junk", "Archive", "Sent Messages"))
        ops.append({"s": s0, "op": "delete", "name": su})
        if r.random() < 0.6:
            ops.append({"s": s0, "op": "create", "name": "tmpbox"})
            ops.append({"s": s0, "op": "rename", "name": "tmpbox", "to": su})
        else:
            ops.append({"s": s0, "op": "create", "name": su})
        ops.append({"actor": "life", "op": "restart", "kind": r.choice(("cancel", "expire"))})
        ops.append({"actor": "life", "op": "restart", "kind": "cancel"})
    if not any(op.get("op") == "restart" for op in ops):
        ops.insert(r.randint(0, len(ops)), {"actor": "life", "op": "restart", "kind": r.choice(("cancel", "expire"))})
    prog["ops"] = ops
    return prog


generate, execute, simplifications = _common.make(PROP, profile, CONFIG, post)
