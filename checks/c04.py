"""C04 - message flags follow IMAP STORE/FETCH semantics (sequential, model-compared)."""

from gen import mailstore
from harness import worlda

PROP = "C04"
CONFIG = worlda.base_config(
    rule="seeded grammar-directed histories (APPEND/STORE x {+,-,=} x SILENT/UID, body fetches, COPY/MOVE, deliveries, SEARCH by flag) over 1-3 "
    "sessions taking turns; after every op an observer UID FETCH 1:* (FLAGS) and the raw .mh_sequences file are compared with the reference "
    "model. non-trivial = >=1 flag-changing op acknowledged OK; distinct = distinct (actor, op-kind) sequence signatures",
    level_text="seeded search over command histories and I/O schedules of the real per-user server under a virtual-time loop; every step is "
    "compared with an executable reference model of IMAP flag semantics (STORE variants, implicit \\Seen, COPY/MOVE/delivery carry-over, "
    "propagation to other sessions by their next NOOP/CHECK/IDLE). Exploration is the right level: the property quantifies over unbounded "
    "histories and flag alphabets, which can only be sampled.",
    expected_probes=["deliveries"],
)
CONFIG["assumptions"].append("keyword alphabet sampled from a tame pool and (25 % of quick, 40 % of thorough programs) a wild pool of atoms that collide with MH sequence names or MH syntax; not exhaustive over keyword atoms")

WEIGHTS = {
    "select": 2, "append": 3, "store": 8, "delete_flag": 1, "fetch": 4, "search": 3, "expunge": 1, "copy": 2, "move": 1,
    "noop": 3, "learn": 1, "deliver": 2, "wait": 1, "close": 0.5, "idle": 0.5,
}


def generate(seed, tier, index, kf):
    import random

    r = random.Random(seed)
    prof = {
        "mailboxes": ["inbox", "work"], "sessions": r.randint(1, 3), "weights": WEIGHTS, "init_hi": 6,
        "ops_lo": 8, "ops_hi": 35 if tier == "quick" else 50, "keywords": "wild" if r.random() < (0.25 if tier == "quick" else 0.4) else "tame", "mode": "sequential",
        "recent_p": 0.05, "bad_set_p": 0.04, "flag_case_p": 0.15 if r.random() < 0.4 else 0.0, "noparen_p": 0.12,
    }
    prog = mailstore.generate(seed, prof)
    prog["props"] = [PROP]
    if prof["keywords"] == "wild" and r.random() < 0.5:
        # keywords that ARE the MH sequence names of system flags
        sids = [s_["id"] for s_ in prog["sessions"]]
        for _ in range(r.randint(1, 2)):
            at = r.randint(1, len(prog["ops"]))
            sid_ = r.choice(sids)
            kw_, pos_ = r.choice(mailstore.ALIAS_KW), r.randint(1, 6)
            # (not in the middle of that session's IDLE)
            idle_ = False
            for o_ in prog["ops"][:at]:
                if o_.get("s") == sid_ and o_.get("op") in ("idle", "done"):
                    idle_ = o_["op"] == "idle"
            if not idle_:
                prog["ops"].insert(at, {"s": sid_, "op": "alias_probe", "kw": kw_, "pos": pos_})
    prog["probe_p"] = r.choice((1.0, 1.0, 0.35, 0.1))
    return prog


execute = worlda.execute
simplifications = worlda.simplifications
