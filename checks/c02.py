"""C02 - UIDs strictly ascending and never reused; UIDNEXT and UIDVALIDITY honest."""

from checks import _common
from harness import worlda

PROP = "C02"
CONFIG = worlda.base_config(
    rule="seeded sequential histories of APPEND / COPY / MOVE into mailboxes, EXPUNGE of arbitrary subsets (often the last message, so MH re-uses the number), "
    "external deliveries (also ones landing in the very second the server last wrote the folder, which it cannot notice until the folder changes again), CREATE/DELETE/re-CREATE/RENAME (incl. INBOX and delete-to-\\Noselect), orderly restarts (cancel and idle-expiry) and a lowered pack "
    "threshold. A driver-side ledger of every (mailbox incarnation, UID) -> content token ever revealed, of every UIDNEXT/UIDVALIDITY told (SELECT, STATUS, "
    "APPENDUID, COPYUID) is checked after every response, i.e. on every prefix of the history. non-trivial = >=1 message added or removed; distinct = op signatures",
    level_text="ledger invariants (no UID re-binding, the UID an APPENDUID/COPYUID reported always holds that message, ascending UIDs, UIDNEXT above every revealed UID and non-decreasing, APPENDUID/COPYUID naming the messages "
    "actually created, UIDVALIDITY stable per incarnation and growing across re-creation) over seeded histories incl. restarts; the crash_points half of the "
    "quantifier is decided by C11's crash enumeration, which uses the same ledger.",
    expected_probes=["deliveries", "expunge_removed_messages"],
)

W = {
    "select": 2, "append": 4, "store": 1, "delete_flag": 4, "fetch": 1, "expunge": 4, "copy": 3, "move": 3, "noop": 1.5, "learn": 0.5,
    "deliver": 3, "wait": 1, "close": 1, "create": 2, "delete": 2, "rename": 2, "status": 2, "restart": 0.7, "list": 0.3,
}


def profile(r, tier, index):
    return {
        "mailboxes": ["inbox", "work", "a/b"][: r.randint(2, 3)], "sessions": r.randint(1, 2), "weights": W, "init_hi": 6, "sparse": r.random() < 0.5,
        "ops_lo": 10, "ops_hi": 45 if tier == "thorough" else 30, "mode": "sequential", "probe_p": r.choice((1.0, 1.0, 0.35, 0.1)), "pack_knob": True, "pack_p": 0.6, "bad_set_p": 0.02, "folder_scan_p": 0.3,
        "name_alphabet": ["a", "b", "work", "new", "x.y", "a b", "Drafts", "Junk"],
    }


def post(prog, r, tier, prof):
    # bias towards "expunge the last message, then add one" (MH number re-use)
    out = []
    for op in prog["ops"]:
        out.append(op)
        if op.get("op") == "expunge" and r.random() < 0.4:
            out.append({"actor": "agent", "op": "deliver", "mbox": r.choice(prof["mailboxes"]), "count": 1, "unseen": True})
    prog["ops"] = out
    if len(prof["mailboxes"]) >= 3 and r.random() < 0.15:
        # two mailboxes trade names (through a third name): whatever their UIDVALIDITYs, each name now names another incarnation
        a, b = prof["mailboxes"][1], prof["mailboxes"][2]
        s0 = prog["sessions"][0]["id"]
        at = r.randint(0, len(prog["ops"]))
        swap = [{"s": s0, "op": "rename", "name": a, "to": "swaptmp"}, {"s": s0, "op": "rename", "name": b, "to": a}, {"s": s0, "op": "rename", "name": "swaptmp", "to": b},
                {"s": s0, "op": "status", "mbox": a}, {"s": s0, "op": "status", "mbox": b}]
        prog["ops"][at:at] = swap
    if r.random() < 0.5:
        _common.inject_stealth(prog, r, 0.25)
    return prog


generate, execute, simplifications = _common.make(PROP, profile, CONFIG, post)
