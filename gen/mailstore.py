"""
Grammar-directed generator of World-A programs over a small mail store.
The generator keeps a rough picture of the state (sizes, who has what
selected) only to bias towards meaningful ops; message references stay
symbolic so that deleting ops during minimisation keeps programs valid.
"""

import random
import re

from gen import corpus

SYS_FLAGS = ["\\Seen", "\\Answered", "\\Flagged", "\\Deleted", "\\Draft"]
TAME_KW = ["$Forwarded", "NonJunk", "kw1"]
WILD_KW = ["a.b", "x-y", "a:b", "1", "not", "cur", "kw_2", "$MDNSent", "all", "first", "last", "caf\u00e9", "a]b", "EXPUNGE", "NotEXPUNGEd"]  # odd but valid atoms (names that ARE MH sequence names of system flags: see ALIAS_KW)
ALIAS_KW = ["Seen", "unseen", "replied", "flagged", "Recent", "Deleted", "Draft"]
FLAG_KEYS = ["ALL", "SEEN", "UNSEEN", "FLAGGED", "UNFLAGGED", "DELETED", "UNDELETED", "ANSWERED", "UNANSWERED", "DRAFT", "UNDRAFT"]
LAT_PROFILES = ["zero", "small", "bimodal", "slow", "wide"]
BODY_ITEMS = ["(BODY[])", "(BODY.PEEK[])", "(RFC822)", "(RFC822.TEXT)", "(RFC822.HEADER)", "(UID FLAGS)", "(FLAGS BODY.PEEK[HEADER.FIELDS (X-Tok)])", "(UID BODY[TEXT])", "(ENVELOPE)", "(BODYSTRUCTURE UID)"]


def swarm_latency(r, quiet_p=0.3):
    if r.random() < quiet_p:
        return {"exec": "zero", "db": "zero", "net": "zero"}
    return {k: r.choice(LAT_PROFILES) for k in ("exec", "db", "net")}


def initial_store(r, names, lo=0, hi=8, sparse=False, kw=TAME_KW, shapes=None, tokbase=0):
    boxes = []
    tok = tokbase
    for name in names:
        n = r.randint(lo, hi)
        msgs = []
        key = 0
        for i in range(n):
            tok += 1
            key += 1 if not sparse else r.choice((1, 1, 2, 3, 5))
            fl = [f for f in SYS_FLAGS if r.random() < 0.25]
            if kw and r.random() < 0.3:
                k = r.choice(kw)
                if re.fullmatch(r"[A-Za-z0-9_.$+-]+", k):  # (the store is written as an MH tool would: plain sequence names)
                    fl.append(k)
            msgs.append(
                {
                    "tok": tok, "key": key, "flags": fl, "date": 1_690_000_000 + tok * 977,
                    "shape": r.choice(shapes or corpus.TAME_SHAPES),
                }
            )
        boxes.append({"name": name, "msgs": msgs, "subscribed": r.random() < 0.3})
    return {"mailboxes": boxes}, tok


class Gen:
    def __init__(self, r, prof):
        self.r = r
        self.p = prof
        self.names = list(prof.get("mailboxes", ["inbox", "work"]))
        self.sids = [f"s{chr(ord('a') + i)}" for i in range(prof.get("sessions", 2))]
        self.kw = WILD_KW if prof.get("keywords") == "wild" else TAME_KW
        self.sizes = {}
        self.sel = {s: None for s in self.sids}
        self.ro = {s: False for s in self.sids}
        self.idle = {s: False for s in self.sids}
        self.tok = 0
        self.ops = []

    def emit(self, op):
        # a mailbox name is an astring: some commands write it as a bare atom (the interpreter falls back to the quoted
        # form when the name does not allow it)
        if ("name" in op or "mbox" in op or "dst" in op) and op.get("actor") is None and self.r.random() < self.p.get("bare_p", 0.2):
            op["bare"] = True
        self.ops.append(op)

    def posset(self, n, allow_bad=True):
        r = self.r
        if n <= 0:
            return {"pos": [1]} if allow_bad else {"all": True}
        x = r.random()
        if x < 0.15:
            return {"all": True}
        if allow_bad and x < 0.15 + self.p.get("bad_set_p", 0.05):
            return {"pos": [r.choice((0, n + 1, n + 2))]}
        k = r.randint(1, min(3, n))
        return {"pos": sorted(set(r.randint(1, n) for _ in range(k)))}

    def flagset(self):
        r = self.r
        pool = SYS_FLAGS + self.kw
        k = r.randint(1, 2)
        fl = []
        for _ in range(k):  # no set: iteration order of a set of str follows PYTHONHASHSEED
            f = r.choice(pool)
            if f.startswith("\\") and r.random() < self.p.get("flag_case_p", 0.0):
                f = r.choice((f.lower(), f.upper(), f.swapcase()))  # system flags are case-insensitive
            if f not in fl:
                fl.append(f)
        if r.random() < self.p.get("recent_p", 0.03):
            fl.append("\\Recent")
        return fl

    def gen_op(self):
        r, p = self.r, self.p
        w = p["weights"]
        kinds = list(w)
        kind = r.choices(kinds, [w[k] for k in kinds])[0]
        s = r.choice(self.sids)
        box = self.sel[s]
        n = self.sizes.get(box, 0) if box else 0
        if self.idle[s] and kind not in ("deliver", "wait", "done"):
            if r.random() < 0.5:
                self.idle[s] = False
                return {"s": s, "op": "done"}
            others = [x for x in self.sids if not self.idle[x]]
            if not others:
                self.idle[s] = False
                return {"s": s, "op": "done"}
            s = r.choice(others)
            box = self.sel[s]
            n = self.sizes.get(box, 0) if box else 0
        NOSEL = ("append", "deliver", "wait", "restart", "gc", "create", "delete", "rename", "subscribe", "unsubscribe", "list", "lsub", "status")
        if kind == "select" or (box is None and kind not in NOSEL):
            name = r.choice(self.names)
            self.sel[s] = name
            ex = r.random() < p.get("examine_p", 0.15)
            self.ro[s] = ex
            return {"s": s, "op": "select", "mbox": name, "examine": ex}
        if kind == "append":
            name = r.choice(self.names)
            self.tok += 1
            self.sizes[name] = self.sizes.get(name, 0) + 1
            return {
                "s": s, "op": "append", "mbox": name, "tok": self.tok, "flags": [f for f in self.flagset() if f != "\\Recent" or r.random() < 0.2],
                "date": 1_650_000_000 + self.tok * 1013, "shape": r.choice(p.get("shapes") or corpus.TAME_SHAPES),
                "nonsync": r.random() < 0.3,
            }
        if kind == "store":
            return {
                "s": s, "op": "store", "uid": r.random() < 0.5, "set": self.posset(n), "how": r.choice("+-="),
                "flags": self.flagset(), "silent": r.random() < 0.3, **({"noparen": True} if r.random() < p.get("noparen_p", 0.0) else {}),
            }
        if kind == "delete_flag":
            return {"s": s, "op": "store", "uid": r.random() < 0.5, "set": self.posset(n, False), "how": "+", "flags": ["\\Deleted"], "silent": r.random() < 0.3}
        if kind == "fetch":
            return {"s": s, "op": "fetch", "uid": r.random() < 0.5, "set": self.posset(n), "items": r.choice(p.get("fetch_items") or BODY_ITEMS)}
        if kind == "search":
            key = r.choice(FLAG_KEYS) if r.random() < 0.7 else f"{r.choice(('KEYWORD', 'KEYWORD', 'UNKEYWORD'))} {r.choice(self.kw)}"
            return {"s": s, "op": "search", "uid": r.random() < 0.5, "key": key}
        if kind == "expunge":
            op = {"s": s, "op": "expunge"}
            if r.random() < p.get("uidexpunge_p", 0.3):
                op["uidset"] = self.posset(n, False)
            return op
        if kind == "close":
            self.sel[s] = None
            return {"s": s, "op": "close"}
        if kind in ("copy", "move"):
            dst = r.choice(self.names + (["nosuchbox"] if r.random() < 0.05 else []))
            return {"s": s, "op": kind, "uid": r.random() < 0.5, "set": self.posset(n), "dst": dst}
        if kind == "noop":
            return {"s": s, "op": "noop", "check": r.random() < 0.3}
        if kind == "learn":
            return {"s": s, "op": "learn"}
        if kind == "idle":
            self.idle[s] = True
            return {"s": s, "op": "idle"}
        if kind == "deliver":
            name = r.choice(self.names)
            k = r.choice((1, 1, 1, 2, 3))
            self.sizes[name] = self.sizes.get(name, 0) + k
            toks = []
            for _ in range(k):
                self.tok += 1
                toks.append(self.tok)
            return {"actor": "agent", "op": "deliver", "mbox": name, "count": k, "toks": toks, "unseen": r.random() < 0.7, "split": r.random() < 0.3}
        if kind == "wait":
            return {"actor": "driver", "op": "wait", "dt": r.choice((0.5, 1.5, 3.0, 6.0, 12.0, 25.0))}
        if kind == "restart":
            for x in self.sids:
                self.sel[x] = None
                self.idle[x] = False
            return {"actor": "life", "op": "restart", "kind": r.choice(("cancel", "expire"))}
        if kind == "gc":
            return {"actor": "driver", "op": "gc"}
        if kind in ("create", "delete", "rename", "subscribe", "unsubscribe", "list", "lsub", "status"):
            return self.gen_ns(kind, s)
        raise ValueError(kind)

    # -- namespace ops over a small name alphabet
    def ns_name(self, existing=None):
        r = self.r
        alpha = self.p.get("name_alphabet") or ["a", "b", "a b", "x.y", "p+q", "[z]", "Drafts", "Junk"]
        if existing is True and self.names:
            return r.choice(self.names)
        depth = r.choice((1, 1, 2, 2, 3))
        if r.random() < 0.5 and self.names:
            base = r.choice(self.names)
            if base.count("/") < 2 and (base.lower() != "inbox" or r.random() < self.p.get("inbox_children_p", 0.0)):
                return base + "/" + r.choice(alpha[:6])
        return "/".join(r.choice(alpha[:6]) for _ in range(depth))

    def gen_ns(self, kind, s):
        r = self.r
        if kind == "create":
            name = self.ns_name()
            if r.random() < 0.14:
                name = r.choice(("INBOX", "inbox", "InBoX", "123", "a/", "/a", "a/2024", "a/7/b", ".", " ", "p/q/" + "x" * 300, "b/.mh_sequences", "n/" + "y" * 256, "p/" + "z" * 255))
            parts = name.strip("/").split("/")
            for j in range(1, len(parts) + 1):
                pn = "/".join(parts[:j])
                if pn and pn not in self.names and pn.lower() != "inbox" and not pn.isdigit() and name not in (".", " ") and len(name) < 200 and not name.endswith(".mh_sequences"):
                    self.names.append(pn)
            return {"s": s, "op": "create", "name": name}
        if kind == "delete":
            name = self.ns_name(existing=r.random() < 0.85)
            if r.random() < 0.1:
                name = r.choice(("INBOX", "inbox", "nosuch", "/INBOX", "/inbox", "/InBox"))
            if name in self.names and name.lower() != "inbox" and not any(n.startswith(name + "/") for n in self.names):
                self.names.remove(name)
                for x in self.sids:
                    if self.sel[x] == name:
                        self.sel[x] = None
            return {"s": s, "op": "delete", "name": name}
        if kind == "rename":
            old = self.ns_name(existing=r.random() < 0.85)
            new = self.ns_name()
            x = r.random()
            if x < 0.08:
                new = self.ns_name(existing=True)  # onto existing
            elif x < 0.14:
                new = old + "/" + "sub"  # into own subtree
            elif x < 0.2:
                old = r.choice(("INBOX", "inbox"))
            elif x < 0.27:
                new = r.choice(("INBOX", "Inbox", "inbox", "5", "a/12", " ", ".", "s/t/" + "x" * 300, "a/.mh_sequences"))
            if new in (".", " ") or len(new) > 200 or new.endswith(".mh_sequences"):
                pass  # refused: the name pool is unchanged
            elif old in self.names and new not in self.names and old.lower() != "inbox" and not new.startswith(old + "/"):
                ren = [n for n in self.names if n == old or n.startswith(old + "/")]
                for n in ren:
                    self.names.remove(n)
                    self.names.append(new + n[len(old):])
                parts = new.split("/")
                for j in range(1, len(parts)):
                    pn = "/".join(parts[:j])
                    if pn not in self.names:
                        self.names.append(pn)
                for x2 in self.sids:
                    if self.sel[x2] in ren:
                        self.sel[x2] = None
            elif old.lower() == "inbox" and new not in self.names:
                self.names.append(new)
            return {"s": s, "op": "rename", "name": old, "to": new}
        if kind in ("subscribe", "unsubscribe"):
            name = self.ns_name(existing=r.random() < 0.85)
            if r.random() < 0.04:
                name = "."  # the mail directory itself is not a mailbox
            return {"s": s, "op": kind, "name": name}
        if kind in ("list", "lsub"):
            ref = r.choice(("", "", "", "a/", "a", "x.y/"))
            pat = r.choice(("*", "%", "a/%", "a/*", "%/%", "*b", "inbox", "INBOX", "InBox", "a b", "x.y", "[z]", "*/*", "a*", "%/b", "Dr%"))
            op = {"s": s, "op": kind, "ref": ref, "pat": pat}
            if kind == "list" and r.random() < 0.15:
                op["ext"] = r.choice((
                    '(SUBSCRIBED) "" "*"', '(SUBSCRIBED RECURSIVEMATCH) "" "%"', '"" ("a/*" "b*")', '"" "*" RETURN (CHILDREN SUBSCRIBED)',
                    '"" "%" RETURN (STATUS (MESSAGES UIDNEXT UNSEEN))', '(SPECIAL-USE) "" "*"', '(REMOTE) "" "*"',
                ))
            return op
        if kind == "status":
            return {"s": s, "op": "status", "mbox": "." if r.random() < 0.04 else self.ns_name(existing=r.random() < 0.9)}
        raise ValueError(kind)


def generate(seed, prof):
    r = random.Random(seed)
    g = Gen(r, prof)
    store, tok = initial_store(
        r, g.names, prof.get("init_lo", 0), prof.get("init_hi", 8), sparse=prof.get("sparse", False),
        kw=g.kw if prof.get("init_keywords", True) else None, shapes=prof.get("shapes"),
    )
    g.tok = tok
    for mb in store["mailboxes"]:
        g.sizes[mb["name"]] = len(mb["msgs"])
    nops = r.randint(prof.get("ops_lo", 8), prof.get("ops_hi", 30))
    for _ in range(nops):
        g.emit(g.gen_op())
    for s in g.sids:
        if g.idle[s]:
            g.emit({"s": s, "op": "done"})
    for s in g.sids:
        if g.sel[s] and r.random() < prof.get("final_flush_p", 0.7):
            g.emit({"s": s, "op": "noop"})
    prog = {
        "format": 1,
        "seed": seed,
        "world": "A",
        "mode": prof.get("mode", "sequential"),
        "latency": swarm_latency(r, prof.get("quiet_p", 0.3)),
        "knobs": {},
        "buggify": {},
        "store": store,
        "sessions": [{"id": s, "proto": "imap"} for s in g.sids],
        "ops": g.ops,
    }
    if prof.get("pack_knob") and r.random() < prof.get("pack_p", 0.7):
        prog["knobs"]["pack_limit"] = r.randint(3, 8)
        prog["knobs"]["pack_ratio"] = r.choice((0.5, 0.7, 0.8, 0.95))
    if r.random() < prof.get("folder_scan_p", 0.0):
        prog["knobs"]["folder_scan_every"] = r.choice((0.5, 2.0, 5.0, 15.0))
    if prog["mode"] == "concurrent" and r.random() < prof.get("sock_buf_p", 0.12):
        # slow reader behind a small socket buffer: the server's drain() waits (up to its 2 s push timeout)
        prog["knobs"]["sock_buf"] = r.choice((128, 512, 2048))
    if r.random() < prof.get("cpu_p", 0.15):
        prog["buggify"]["cpu_p"] = r.choice((0.05, 0.3))
        prog["buggify"]["cpu_max"] = r.choice((0.02, 0.08, 0.3))
    if r.random() < prof.get("gc_p", 0.3):
        prog["buggify"]["gc_every"] = r.choice((50, 200, 1000))
    if r.random() < prof.get("stall_p", 0.0):
        prog["buggify"]["stall_p"] = 0.002
        prog["buggify"]["stall_max"] = r.choice((0.05, 0.5, 3.0))
    return prog
