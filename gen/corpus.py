"""
Deterministic message corpus: bytes are a function of (shape, tok).
Every message carries its token in an `X-Tok:` header and in the body so that
any byte string a server returns is attributable to exactly one message.
"""

SHAPES = [
    "plain",
    "dquote-subject",
    "backslash-subject",
    "8bit",
    "rfc2047",
    "folded",
    "multipart",
    "multipart-nested",
    "rfc822-inside",
    "crlf",
    "no-final-newline",
    "dot-lines",
    "missing-fields",
    "long-line",
    "empty-body",
    "addr-quotes",
    "addr-odd",
    "ctype-odd",
    "ctype-quote",
    "addr-empty",
    "nul-header",
    "8bit-body",
]
# not in SHAPES (expensive): "big" - a body of about 400 KiB, for pushes larger than any socket buffer; "huge-line" - one line of 70 kB

TAME_SHAPES = ["plain", "folded", "multipart", "crlf", "dot-lines", "empty-body", "8bit-body"]


def tokname(tok):
    return f"T{tok:04d}x"


def build(shape, tok):
    t = tokname(tok)
    nl = b"\n"
    hdr = [
        b"From: Alice Example <alice@example.org>",
        b"To: bob@example.org",
        b"Subject: message " + t.encode(),
        b"Date: Tue, 14 Nov 2023 22:13:20 +0000",
        b"Message-ID: <" + t.encode() + b"@example.org>",
        b"X-Tok: " + t.encode(),
    ]
    body = [b"body of " + t.encode(), b"second line " + t.encode()]
    if shape == "plain":
        pass
    elif shape == "dquote-subject":
        hdr[2] = b'Subject: he said "hello" to ' + t.encode()
    elif shape == "backslash-subject":
        hdr[2] = b"Subject: path C:\\dir\\file " + t.encode() + b" \\"
    elif shape == "8bit":
        hdr[2] = b"Subject: caf\xc3\xa9 " + t.encode()
        body.append(b"na\xefve \xe9t\xe9")
    elif shape == "rfc2047":
        hdr[2] = b"Subject: =?utf-8?b?Y2Fmw6k=?= =?iso-8859-1?q?=22q=22?= " + t.encode()
        hdr[0] = b"From: =?utf-8?q?Al=C3=AFce?= <alice@example.org>"
    elif shape == "folded":
        hdr[2] = b"Subject: a long subject\n that is folded\n\tover three lines " + t.encode()
    elif shape == "multipart":
        hdr.append(b"MIME-Version: 1.0")
        hdr.append(b'Content-Type: multipart/mixed; boundary="BB' + t.encode() + b'"')
        body = [
            b"preamble",
            b"--BB" + t.encode(),
            b"Content-Type: text/plain",
            b"",
            b"part one " + t.encode(),
            b"--BB" + t.encode(),
            b'Content-Type: application/octet-stream; name="a \\"b\\".bin"',
            b"Content-Transfer-Encoding: base64",
            b"",
            b"AAECAwQF",
            b"--BB" + t.encode() + b"--",
        ]
    elif shape == "multipart-nested":
        hdr.append(b"MIME-Version: 1.0")
        hdr.append(b"Content-Type: multipart/mixed; boundary=OUT" + t.encode())
        body = [
            b"--OUT" + t.encode(),
            b"Content-Type: multipart/alternative; boundary=IN" + t.encode(),
            b"",
            b"--IN" + t.encode(),
            b"Content-Type: text/plain; charset=us-ascii",
            b"",
            b"plain " + t.encode(),
            b"--IN" + t.encode(),
            b"Content-Type: text/html",
            b"",
            b"<p>html " + t.encode() + b"</p>",
            b"--IN" + t.encode() + b"--",
            b"--OUT" + t.encode() + b"--",
        ]
    elif shape == "rfc822-inside":
        hdr.append(b"MIME-Version: 1.0")
        hdr.append(b"Content-Type: message/rfc822")
        body = [
            b"From: inner@example.org",
            b'Subject: inner "quoted" ' + t.encode(),
            b"",
            b"inner body " + t.encode(),
        ]
    elif shape == "crlf":
        nl = b"\r\n"
    elif shape == "no-final-newline":
        pass
    elif shape == "dot-lines":
        body = [b".", b"..", b".leading dot " + t.encode(), b"...", b"x", b"."]
    elif shape == "missing-fields":
        hdr = [b"X-Tok: " + t.encode(), b"Subject:"]
    elif shape == "long-line":
        body = [b"L" * 2000 + t.encode()]
    elif shape == "empty-body":
        body = []
    elif shape == "addr-quotes":
        hdr[0] = b'From: "Doe, \\"JD\\" John" <jd@example.org>, "back\\\\slash" <b@example.org>'
        hdr[1] = b"To: undisclosed-recipients:;"
    elif shape == "addr-odd":
        hdr[0] = b'From: "a@b"@example.com, local-only, <>, "q\"uote"@[10.0.0.1], grp: x@example.org, y@example.org;'
        hdr[1] = b"To: (comment (nested)) c@example.org, =?utf-8?q?=22?= <d@example.org>"
        hdr.append(b"Reply-To: <@route.example:e@example.org>")
        hdr.append(b"In-Reply-To: <odd\"id@example.org> (with \\comment)")
    elif shape == "ctype-odd":
        hdr.append(b"MIME-Version: 1.0")
        hdr.append(b'Content-Type: text/plain; charset="us-ascii"; name*=utf-8\'\'na%22me.txt; x="a\\b"; y=(c) z')
        hdr.append(b'Content-Disposition: attachment; filename="fi\"le\\.txt"; size=abc')
        hdr.append(b"Content-Language: en, (fr) de")
        hdr.append(b'Content-ID: <id"with"quotes@example.org>')
        hdr.append(b"Content-Description: desc with \"quotes\" and \\ backslash")
    elif shape == "ctype-quote":
        # specials where type, subtype and parameter names are expected
        hdr.append(b"MIME-Version: 1.0")
        hdr.append(b'Content-Type: te"xt/pl\\ain; ch"ar=us-ascii; name="a b"')
        hdr.append(b'Content-Transfer-Encoding: 7"bit')
        hdr.append(b'Content-Disposition: in"line; fi"le=x')
    elif shape == "addr-empty":
        # address headers that name nobody: an empty address list is NIL, never ()
        hdr[0] = b"From: "
        hdr[1] = b"To: ;"
        hdr.append(b"Cc: ,")
        hdr.append(b"Bcc: (only a comment)")
        hdr.append(b"Sender: <>")
        hdr.append(b"Reply-To: group:;")
    elif shape == "nul-header":
        hdr[2] = b"Subject: nul \x00 inside " + t.encode()
        hdr[0] = b'From: "n\x00ul" <a\x00@example.org>'
        hdr.append(b"In-Reply-To: <x\x00y@example.org>")
    elif shape == "8bit-body":
        hdr.append(b"MIME-Version: 1.0")
        hdr.append(b"Content-Type: text/plain; charset=iso-8859-1")
        hdr.append(b"Content-Transfer-Encoding: 8bit")
        body = [b"caf\xe9 au lait " + t.encode(), b"\xa9 \xff " + t.encode()]
    elif shape == "mp-no-boundary":
        # declared multipart whose body never shows the boundary (the email package keeps it as one raw string), with
        # lines that begin with a dot
        hdr.append(b"MIME-Version: 1.0")
        hdr.append(b"Content-Type: multipart/mixed; boundary=XYZ")
        body = [b"no boundary here " + t.encode(), b".", b".hidden " + t.encode(), b"last"]
    elif shape == "deep-nest":
        # multiparts nested deeper than Python likes to recurse
        depth = 300
        hdr.append(b"MIME-Version: 1.0")
        hdr.append(b"Content-Type: multipart/mixed; boundary=b0")
        body = []
        for i in range(depth):
            body.append(b"--b%d" % i)
            body.append(b"Content-Type: multipart/mixed; boundary=b%d" % (i + 1))
            body.append(b"")
        body.append(b"--b%d" % depth)
        body.append(b"Content-Type: text/plain")
        body.append(b"")
        body.append(b"innermost " + t.encode())
        for i in range(depth, -1, -1):
            body.append(b"--b%d--" % i)
    elif shape == "huge-line":
        # one body line longer than asyncio's default stream limit (64 KiB)
        body = [b"before " + t.encode(), b"H" * 70000 + t.encode(), b".after " + t.encode()]
    elif shape == "big":
        body = [(b"%05d big body line " % i) + t.encode() + b" " + b"x" * 40 for i in range(6000)]
    else:
        raise ValueError(shape)
    out = nl.join(hdr) + nl + nl + nl.join(body)
    if shape != "no-final-newline" and body:
        out += nl
    return out


def tok_of(data):
    """Extract the token from returned message bytes (header or body)."""
    import re

    m = re.search(rb"T(\d{4})x", data)
    return int(m.group(1)) if m else None
